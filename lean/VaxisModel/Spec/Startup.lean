import VaxisModel.Model.Input

/-!
# Spec: which terminal replies advertise which capability (start-up detection, C07 / C03)

Written from the protocols Vaxis queries at start-up (xterm ctlseqs: DA1, XTSMGRAPHICS, DECRPM,
XTGETTCAP, XTVERSION, window-ops reports 4/8, OSC 4/10/11; kitty keyboard `CSI ? flags u`; kitty
graphics `APC G…`; contour mode 2026/2027/2031; in-band resize 48; OSC 176), as a classification
of *parsed sequences* — independent of `handleSequence`'s control flow (no panics, no state).
Only the data types (`Seq`, `Event`, `Caps`) are shared with the model.

`notices s` = the capability notifications the reply `s` stands for, in the order the terminal
states them.  `specCaps` = the capability record "exactly those the replies established".
-/
namespace VaxisModel.Spec.Startup
open VaxisModel.Model.Input (Seq Event Internal Caps)

/-- First sub-parameter of the `i`-th parameter. -/
def par (ps : List (List Int)) (i : Nat) : Option Int := (ps[i]?).bind List.head?

def ascii (s : String) : List Nat := s.toList.map Char.toNat

def startsWith (pre l : List Nat) : Bool := l.take pre.length == pre

/-- XTGETTCAP names travel hex-encoded (upper case): "Smulx", "RGB"; VTE's tertiary DA is "~VTE". -/
def hexSmulx : List Nat := ascii "536D756C78"
def hexRGB : List Nat := ascii "524742"
def hexVTE : List Nat := ascii "7E565445"

def note (i : Internal) : Event := .internal i

/-- The DECRPM values that mean "the terminal knows this mode": 1 set, 2 reset, and for the
Unicode-core mode also 3 (permanently set). -/
def decrpmKnown (mode : Int) (v : Int) : Bool :=
  v == 1 || v == 2 || (mode == 2027 && v == 3)

def noticesCSI (interm : List Nat) (ps : List (List Int)) (fin : Nat) : List Event :=
  let priv := interm == [63]   -- '?'
  if fin == 99 then            -- 'c'
    -- DA1 `CSI ? … c`: attribute 4 = sixel graphics; the reply itself ends the start-up
    if priv then (ps.filter fun p => p.head? == some 4).map (fun _ => note .capabilitySixel) ++ [note .primaryDeviceAttribute]
    else []
  else if fin == 83 then       -- 'S'  XTSMGRAPHICS `CSI ? 2 ; 0 ; w ; h S`: sixel geometry read successfully
    if priv && decide (3 ≤ ps.length) && par ps 0 == some 2 && par ps 1 == some 0 then [note .capabilitySixel] else []
  else if fin == 121 then      -- 'y'  DECRPM `CSI ? mode ; value $ y`
    match par ps 0, par ps 1 with
    | some mode, some v =>
      if mode == 2026 && decrpmKnown mode v then [note .synchronizedUpdates]
      else if mode == 2027 && decrpmKnown mode v then [note .unicodeCoreCap]
      else if mode == 2031 && decrpmKnown mode v then [note .notifyColorChange]
      else []
    | _, _ => []
  else if fin == 117 then      -- 'u'  kitty keyboard `CSI ? flags u`
    if priv then [note .kittyKeyboard] else []
  else if fin == 116 then      -- 't'  window reports
    if decide (3 ≤ ps.length) then
      if par ps 0 == some 4 then [note .textAreaPix]
      else if par ps 0 == some 8 then [note .textAreaChar]
      else if par ps 0 == some 48 && ps.length == 5 then [note .inBandResizeEvents]
      else []
    else []
  else []

def noticesDCS (fin : Nat) (interm : List Nat) (ps : List Int) (data : List Nat) : List Event :=
  if fin == 114 then           -- 'r'  XTGETTCAP `DCS 1 + r name=value ST` (0 + r = failure)
    if interm.head? == some 43 && ps.head?.isSome && ps.head? != some 0 then
      let name := data.takeWhile (· != 61)
      if name == hexSmulx then [note .styledUnderlines]
      else if name == hexRGB then [note .truecolor]
      else []
    else []
  else if fin == 124 then      -- '|'
    if interm.head? == some 33 then            -- tertiary DA `DCS ! | id ST`
      if data == hexVTE then [note .styledUnderlines] else []
    else if interm.head? == some 62 then [.terminalID data]   -- XTVERSION `DCS > | text ST`
    else []
  else []

/-- OSC 176 reply `176 ; id`: exactly one `;`. -/
def appIDOf (pl : List Nat) : List Event :=
  let rest := (pl.dropWhile (· != 59)).drop 1
  if startsWith (ascii "176") pl && pl.contains 59 && !rest.contains 59 then [.appID rest] else []

def notices : Seq → List Event
  | .csi interm ps fin => noticesCSI interm ps fin
  | .dcs fin interm ps data => noticesDCS fin interm ps data
  | .apc data => if data.head? == some 71 then [note .kittyGraphics] else []   -- 'G'
  | .osc pl =>
      (if startsWith (ascii "4") pl then [note .capabilityOsc4] else []) ++
      (if startsWith (ascii "10") pl then [note .capabilityOsc10] else []) ++
      (if startsWith (ascii "11") pl then [note .capabilityOsc11] else []) ++ appIDOf pl
  | _ => []

/-- The reply that ends start-up. -/
def isDA1 (s : Seq) : Bool := (notices s).contains (note .primaryDeviceAttribute)

/-- Some reply in the list announces `i`. -/
def adv (ss : List Seq) (i : Internal) : Bool := ss.any fun s => (notices s).contains (note i)

def isAppID : Event → Bool | .appID _ => true | _ => false

/-- The terminal's identification: the last XTVERSION reply (`[]` if none). -/
def lastTermID : List Event → List Nat → List Nat
  | [], d => d
  | .terminalID s :: r, _ => lastTermID r s
  | _ :: r, d => lastTermID r d

def termIDOf (ss : List Seq) : List Nat := lastTermID (ss.flatMap notices) []

/-- Options / environment that enter the detection. -/
structure Opts where
  /-- `Options.DisableKittyKeyboard` -/
  disableKitty : Bool := false
  /-- `COLORTERM` is `truecolor` or `24bit` -/
  colorterm : Bool := false
  /-- `VAXIS_FORCE_WCWIDTH`, `VAXIS_FORCE_UNICODE`, `VAXIS_FORCE_NOZWJ`, `VAXIS_DISABLE_NOZWJ` are set -/
  forceWcwidth : Bool := false
  forceUnicode : Bool := false
  forceNoZWJ : Bool := false
  disableNoZWJ : Bool := false
  deriving DecidableEq, Repr

def Opts.envUnset (o : Opts) : Bool := !o.forceWcwidth && !o.forceUnicode && !o.forceNoZWJ && !o.disableNoZWJ

/-- "Exactly those the replies established": `replies` = everything the terminal sent up to and
including the DA1 reply; `probeCol` = the column of the cursor-position report that answered the
explicit-width probe (`none` = it was not answered in time).  Without environment overrides. -/
def specCaps (o : Opts) (replies : List Seq) (probeCol : Option Int) : Caps :=
  let tid := termIDOf replies
  { synchronizedUpdate := adv replies .synchronizedUpdates
    unicodeCore := adv replies .unicodeCoreCap || (!startsWith (ascii "kitty") tid && tid == ascii "tmux 3.4")
    noZWJ := startsWith (ascii "kitty") tid
    rgb := adv replies .truecolor || o.colorterm
    kittyGraphics := adv replies .kittyGraphics
    kittyKeyboard := adv replies .kittyKeyboard && !o.disableKitty
    styledUnderlines := adv replies .styledUnderlines
    sixels := adv replies .capabilitySixel
    colorThemeUpdates := adv replies .notifyColorChange
    reportSizeChars := adv replies .textAreaChar
    reportSizePixels := adv replies .textAreaPix
    osc4 := adv replies .capabilityOsc4
    osc10 := adv replies .capabilityOsc10
    osc11 := adv replies .capabilityOsc11
    osc176 := replies.any fun s => (notices s).any isAppID
    inBandResize := adv replies .inBandResizeEvents
    explicitWidth := probeCol == some 2 }

end VaxisModel.Spec.Startup
