/-
What a terminal stores per cell / in its pen: the *displayed* style. Shared by Spec.Sgr,
Spec.Term and the properties C01, C06, C12, C18.  Written from ECMA-48 / xterm ctlseqs, not
from the Go code.
-/
namespace VaxisModel.Spec

/-- A colour as a terminal stores it. -/
inductive Col where
  | default
  | idx (n : Nat)            -- palette index 0..255
  | rgb (r g b : Nat)        -- direct colour
  deriving DecidableEq, Repr, Inhabited

/-- Underline style numbers as in SGR `4:n`: 0 off, 1 single, 2 double, 3 curly, 4 dotted, 5 dashed. -/
abbrev UlStyle := Nat

structure TStyle where
  fg : Col := .default
  bg : Col := .default
  ul : Col := .default
  ulStyle : UlStyle := 0
  bold : Bool := false
  dim : Bool := false
  italic : Bool := false
  blink : Bool := false
  reverse : Bool := false
  hidden : Bool := false
  strike : Bool := false
  deriving DecidableEq, Repr, Inhabited

def TStyle.reset : TStyle := {}

def Col.toString : Col → String
  | .default => "d"
  | .idx n => s!"i{n}"
  | .rgb r g b => s!"r{r}.{g}.{b}"

/-- Canonical one-token rendering, used by the drivers. -/
def TStyle.toString (s : TStyle) : String :=
  let b (x : Bool) (c : String) := if x then c else ""
  s!"{s.fg.toString}/{s.bg.toString}/{s.ul.toString}/u{s.ulStyle}/" ++
    b s.bold "B" ++ b s.dim "D" ++ b s.italic "I" ++ b s.blink "K" ++ b s.reverse "R" ++ b s.hidden "H" ++ b s.strike "S"

end VaxisModel.Spec
