/-
Spec / oracle for C14, written from the property text.  Core Lean only; natural-number
arithmetic only (no uint16), so that wrap-around in the implementation shows up as a difference.

* layout contract: a widget's surface is no larger than the maximum it was given;
* centring: a child that fits lies fully inside its parent with margins equal to within one cell;
* surface addressing: a surface of size W×H holds W·H cells; a write at (col,row) changes exactly
  cell row·W+col when col < W and row < H, and nothing otherwise (never a panic);
* painting: each surface is painted at its parent's origin plus its own offset, clipped to every
  ancestor (and the window), children after their parent and in z-order (ties: child order).
-/
import VaxisModel.Model.Window

namespace VaxisModel.Spec.Surface
open VaxisModel.Model.Window

/-! ### addressing -/

/-- The buffer index the property assigns to an inside cell. -/
def cellIndex (W col row : Nat) : Nat := row * W + col

def inside (W H col row : Nat) : Prop := col < W ∧ row < H

instance (W H col row : Nat) : Decidable (inside W H col row) := by unfold inside; infer_instance

/-- Expected changed buffer indices of one write. -/
def expectedWrite (W H col row : Nat) : List Nat :=
  if inside W H col row then [cellIndex W col row] else []

/-! ### centring -/

/-- Child of size `cw×ch` at `(col,row)` inside a parent of size `pw×ph`, margins within one. -/
def centred (pw ph cw ch : Nat) (col row : Int) : Prop :=
  0 ≤ col ∧ col + cw ≤ pw ∧ 0 ≤ row ∧ row + ch ≤ ph ∧
  (col - (pw - cw - col)).natAbs ≤ 1 ∧ (row - (ph - ch - row)).natAbs ≤ 1

instance (pw ph cw ch : Nat) (col row : Int) : Decidable (centred pw ph cw ch col row) := by
  unfold centred; infer_instance

/-! ### painting -/

/-- A surface tree as the spec sees it. -/
inductive Tree where
  | node (col row z : Int) (w h : Nat) (buf : List Cell) (kids : List Tree)
deriving Repr

structure Rect where
  x0 : Int
  y0 : Int
  x1 : Int   -- exclusive
  y1 : Int
deriving Repr

def Rect.inter (a b : Rect) : Rect :=
  { x0 := max a.x0 b.x0, y0 := max a.y0 b.y0, x1 := min a.x1 b.x1, y1 := min a.y1 b.y1 }

def Rect.has (r : Rect) (x y : Int) : Bool := r.x0 ≤ x && x < r.x1 && r.y0 ≤ y && y < r.y1

/-- One painted layer: absolute origin, clip, width, buffer. -/
structure Layer where
  ax : Int
  ay : Int
  clip : Rect
  w : Nat
  buf : List Cell
deriving Repr

def zOf : Tree → Int | .node _ _ z _ _ _ _ => z

def insertInt (x : Int) : List Int → List Int
  | [] => [x]
  | y :: rest => if x < y then x :: y :: rest else if x = y then y :: rest else y :: insertInt x rest

/-- The distinct keys in increasing order. -/
def keyLevels {α : Type} (l : List (Int × α)) : List Int := (l.map (·.1)).foldr insertInt []

/-- Order by key; entries of equal key keep their order ("z-order, ties in child order"). -/
def orderByKey {α : Type} (l : List (Int × α)) : List (Int × α) :=
  (keyLevels l).flatMap fun v => l.filter fun p => p.1 == v

mutual
/-- Painter's order: the surface, then its children by z (ties in child order), each at parent
origin + offset and clipped to every ancestor.  `clipOwn = false` makes this surface's own rectangle
not clip its descendants (used only to classify a difference at the root, see `expectedPaint`). -/
def layers : Bool → Tree → Int → Int → Rect → List Layer
  | clipOwn, .node col row _ w h buf kids, px, py, clip =>
      let ax := px + col
      let ay := py + row
      let own : Rect := { x0 := ax, y0 := ay, x1 := ax + w, y1 := ay + h }
      let c := if clipOwn then clip.inter own else clip
      { ax := ax, ay := ay, clip := c, w := w, buf := buf } ::
        ((orderByKey (layersEach kids ax ay c)).flatMap (·.2))
/-- Each child's layers, tagged with its z. -/
def layersEach : List Tree → Int → Int → Rect → List (Int × List Layer)
  | [], _, _, _ => []
  | k :: rest, px, py, clip => (zOf k, layers true k px py clip) :: layersEach rest px py clip
end

/-- What layer `l` shows at absolute `(x,y)`, if anything. -/
def Layer.at (l : Layer) (x y : Int) : Option Cell :=
  if l.clip.has x y ∧ l.w ≠ 0 then
    let dx := (x - l.ax).toNat
    let dy := (y - l.ay).toNat
    if dx < l.w then l.buf[dy * l.w + dx]? else none
  else none

/-- The last layer (in painter's order) that shows something at `(x,y)`. -/
def topAt : List Layer → Int → Int → Option Cell
  | [], _, _ => none
  | l :: rest, x, y =>
      match topAt rest x y with
      | some c => some c
      | none => l.at x y

/-- Expected painted cells on a `sw×sh` window, (y,x) order. `rootClips = true` is the property as
stated (every surface, the root included, clips its descendants; the window clips everything);
`false` lets the root's children overflow the root's own rectangle (still clipped by the window). -/
def expectedPaint (rootClips : Bool) (t : Tree) (sw sh : Int) : List (Int × Int × Cell) :=
  let ls := layers rootClips t 0 0 { x0 := 0, y0 := 0, x1 := sw, y1 := sh }
  (upTo sh).flatMap fun y => (upTo sw).filterMap fun x => (topAt ls x y).map fun c => (x, y, c)

end VaxisModel.Spec.Surface
