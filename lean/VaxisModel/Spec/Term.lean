/-
Spec.Term — a small reference terminal (DEC VT / xterm compatible display model) for the core
vocabulary of property C06, reused by C01/C12 for judging what a byte stream displays.

Written from DESIGN.md Appendix A (which fixes the semantics below, line by line) and the standards
behind it (ECMA-48, DEC STD 070 / VT510 manual, xterm ctlseqs) — NOT from widgets/term.

Conventions (Appendix A): `R×C` screen, 0-based cursor `(row, col)`, pending-wrap flag `pw`, scroll
margins `top..bottom` inclusive, pen. Autowrap on, origin mode off, no left/right margins, insert
mode off. A numeric parameter `0` stands for "omitted or zero" (= the default value of that
function). "blank" = no glyph, default attributes, background = the pen's background at the time
of erasure (bce).

* `TCell.poison` is the surviving half of a half-overwritten / half-erased / split wide glyph:
  what a real terminal shows there is terminal specific, so `poison` compares equal to anything
  (`TCell.accepts`). It is produced by one uniform rule (`healRow`): after every edit of a row, a
  width-2 glyph that is not followed by its `cont` cell, and a `cont` cell that is not preceded by
  a width-2 glyph, become `poison`.
* `Res.unconstrained`: the property does not constrain the result (pending-wrap + anything other
  than print / CR / absolute positioning; a wide glyph on a 1-column screen; widths other than
  1 and 2; parameters outside the vocabulary).
* `Res.accept l`: any state in `l` is acceptable (where DEC and xterm differ).

Decisions on the edge of the vocabulary (round 4), stated here so that the oracle and the theorems use ONE definition:
* A CSI control function other than SGR whose parameter string contains a colon (`CSI 2:5 A`, `CSI 1;2:3 H`): a DEC VT ignores
  the whole sequence (DEC STD 070: 3/10 inside a parameter string sends the parser to "CSI ignore"; 3/10 is reserved for
  ISO 8613-6 sub-parameters, which only SGR uses) and so does xterm (charproc.c: a sequence with sub-parameters that is not SGR
  resets the parser). Both references agree, so there is no accept-set: `Tok.ignored`, `step t .ignored = accept [t]`.
* DECSTR (`CSI ! p`, soft terminal reset) is NOT a token: the property's vocabulary lists the functions it constrains and soft
  reset is not among them (RIS is there for the reset of the display state only).
* The cursor SHAPE is not part of what C06 constrains (grid and cursor position); `cursorShape`/`cursorVisible` are carried for
  the renderer-side users (C12) and compared by `SimC`, not by `T.accepts`.
Core Lean only.
-/
import VaxisModel.Spec.Style
import VaxisModel.Spec.Sgr

namespace VaxisModel.Spec.Term

/-- A grapheme cluster: its UTF-8 bytes. -/
abbrev G := List Nat

inductive TCell where
  | blank (bg : Col)
  | glyph (g : G) (w : Nat) (st : TStyle) (link : G)
  | cont                      -- right half of a width-2 glyph
  | poison                    -- terminal specific; equal to anything
  deriving DecidableEq, Repr, Inhabited

abbrev TRow := List TCell
abbrev TGrid := List TRow

structure SavedCursor where
  row : Nat
  col : Nat
  pw : Bool := false
  pen : TStyle
  link : G
  deriving DecidableEq, Repr, Inhabited

structure T where
  rows : Nat
  cols : Nat
  primary : TGrid
  alt : TGrid
  onAlt : Bool := false
  row : Nat := 0
  col : Nat := 0
  pw : Bool := false
  pen : TStyle := {}
  link : G := []
  top : Nat := 0
  bottom : Nat                     -- inclusive
  savedP : Option SavedCursor := none
  savedA : Option SavedCursor := none
  cursorVisible : Bool := true
  cursorShape : Nat := 0
  deriving DecidableEq, Repr, Inhabited

/-- The vocabulary of C06 (plus cursor visibility/shape for the renderer-side users). -/
inductive Tok where
  | print (g : G) (w : Nat)
  | cr
  | lf                             -- LF, VT, FF
  | ind
  | nel
  | ri
  | cup (a b : Nat)                -- CUP / HVP
  | cha (n : Nat)                  -- CHA / HPA
  | vpa (n : Nat)
  | cuu (n : Nat)
  | cud (n : Nat)
  | cuf (n : Nat)
  | cub (n : Nat)
  | cnl (n : Nat)
  | cpl (n : Nat)
  | el (n : Nat)
  | ed (n : Nat)
  | ech (n : Nat)
  | ich (n : Nat)
  | dch (n : Nat)
  | il (n : Nat)
  | dl (n : Nat)
  | su (n : Nat)
  | sd (n : Nat)
  | decstbm (t b : Nat)
  | decsc
  | decrc
  | altOn                          -- CSI ? 1049 h
  | altOff                         -- CSI ? 1049 l
  | sgr (params : List (List Nat))
  | showCursor (on : Bool)         -- CSI ? 25 h/l
  | cursorShape (n : Nat)          -- DECSCUSR
  | ris                            -- ESC c: reset to the power-on state (at the current size)
  | osc8 (params url : List Nat)   -- OSC 8 ; params ; url ST: the hyperlink of the glyphs printed from now on ("" closes it)
  | ignored                        -- a non-SGR CSI function with colon sub-parameters: ignored by a DEC VT and by xterm
  deriving DecidableEq, Repr, Inhabited

inductive Res where
  | unconstrained
  | accept (l : List T)
  deriving Repr, Inhabited

/-! ### construction and access -/

def blankGrid (rows cols : Nat) (bg : Col := .default) : TGrid :=
  List.replicate rows (List.replicate cols (.blank bg))

/-- Power-on state of an `rows × cols` terminal. -/
def T.init (rows cols : Nat) : T :=
  { rows := rows, cols := cols, primary := blankGrid rows cols, alt := blankGrid rows cols,
    bottom := rows - 1 }

def T.grid (t : T) : TGrid := if t.onAlt then t.alt else t.primary
def T.setGrid (t : T) (g : TGrid) : T := if t.onAlt then { t with alt := g } else { t with primary := g }

/-- `n` with omitted/0 meaning 1. -/
def d1 (n : Nat) : Nat := if n = 0 then 1 else n

/-! ### wide-glyph halves -/

def healGo : Bool → TRow → TRow
  | _, [] => []
  | prevHead, c :: rest =>
    match c with
    | .cont => (if prevHead then TCell.cont else .poison) :: healGo false rest
    | .glyph g w st l =>
      if w ≥ 2 then
        match rest with
        | .cont :: _ => .glyph g w st l :: healGo true rest
        | _ => .poison :: healGo false rest
      else .glyph g w st l :: healGo false rest
    | other => other :: healGo false rest

/-- Poison the surviving half of every broken wide glyph of a row. -/
def healRow (r : TRow) : TRow := healGo false r

/-! ### row and region editing -/

def T.blank (t : T) : TCell := .blank t.pen.bg
def T.blankRow (t : T) : TRow := List.replicate t.cols t.blank

/-- Replace row `r` of the active grid by `f row` (then heal it). -/
def T.modRow (t : T) (r : Nat) (f : TRow → TRow) : T :=
  t.setGrid (t.grid.modify r (fun row => healRow (f row)))

/-- Cells `[lo, hi)` of a row become `b`. -/
def blankRange (row : TRow) (lo hi : Nat) (b : TCell) : TRow :=
  row.mapIdx (fun i c => if lo ≤ i ∧ i < hi then b else c)

/-- Scroll rows `[top, bottom]` of `g` up by `m` (content moves towards row `top`; `m` blank rows
    enter at the bottom of the region). -/
def scrollRegionUp (g : TGrid) (top bottom m : Nat) (blankRow : TRow) : TGrid :=
  let region := (g.drop top).take (bottom + 1 - top)
  let m := min m region.length
  g.take top ++ (region.drop m ++ List.replicate m blankRow) ++ g.drop (bottom + 1)

/-- Scroll rows `[top, bottom]` down by `m` (`m` blank rows enter at `top`). -/
def scrollRegionDown (g : TGrid) (top bottom m : Nat) (blankRow : TRow) : TGrid :=
  let region := (g.drop top).take (bottom + 1 - top)
  let m := min m region.length
  g.take top ++ (List.replicate m blankRow ++ region.take (region.length - m)) ++ g.drop (bottom + 1)

def T.scrollUp (t : T) (top bottom m : Nat) : T := t.setGrid (scrollRegionUp t.grid top bottom m t.blankRow)
def T.scrollDown (t : T) (top bottom m : Nat) : T := t.setGrid (scrollRegionDown t.grid top bottom m t.blankRow)

/-! ### cursor-moving primitives (no pending-wrap test) -/

/-- IND without the pending-wrap test: at the bottom margin scroll the region up by one, elsewhere
    move down unless on the last line. The column is unchanged. -/
def T.indCore (t : T) : T :=
  if t.row = t.bottom then t.scrollUp t.top t.bottom 1
  else if t.row + 1 < t.rows then { t with row := t.row + 1 }
  else t

def T.riCore (t : T) : T :=
  if t.row = t.top then t.scrollDown t.top t.bottom 1
  else if t.row > 0 then { t with row := t.row - 1 }
  else t

def T.cuuCore (t : T) (n : Nat) : T :=
  let lim := if t.row ≥ t.top then t.top else 0
  { t with row := max (t.row - d1 n) lim }

def T.cudCore (t : T) (n : Nat) : T :=
  let lim := if t.row ≤ t.bottom then t.bottom else t.rows - 1
  { t with row := min (t.row + d1 n) lim }

/-- `clamp(n,1,size) − 1` with omitted/0 ⇒ 1. -/
def absPos (n size : Nat) : Nat := min (d1 n) size - 1

/-! ### print -/

def T.writeNarrow (t : T) (g : G) : T :=
  let t := if t.pw then { ({ t with col := 0, pw := false } : T).indCore with pw := false } else t
  let t := t.modRow t.row (fun row => row.set t.col (.glyph g 1 t.pen t.link))
  if t.col + 1 = t.cols then { t with pw := true } else { t with col := t.col + 1 }

def T.writeWide (t : T) (g : G) : T :=
  let t := if t.pw ∨ t.col + 1 = t.cols then { ({ t with col := 0, pw := false } : T).indCore with pw := false } else t
  let t := t.modRow t.row (fun row => (row.set t.col (.glyph g 2 t.pen t.link)).set (t.col + 1) .cont)
  if t.col + 2 = t.cols then { t with col := t.col + 1, pw := true } else { t with col := t.col + 2 }

/-! ### DECSC / DECRC -/

def T.save (t : T) : T :=
  let s : SavedCursor := { row := t.row, col := t.col, pw := t.pw, pen := t.pen, link := t.link }
  if t.onAlt then { t with savedA := some s } else { t with savedP := some s }

/-- DECRC. Appendix A: the pending-wrap flag is cleared on restore. DEC STD 070 and xterm save and
    restore the flag ("last column flag") with the cursor, so both are accepted. -/
def T.restore (t : T) : List T :=
  match (if t.onAlt then t.savedA else t.savedP) with
  | some s =>
    let t1 : T := { t with row := min s.row (t.rows - 1), col := min s.col (t.cols - 1), pw := false, pen := s.pen, link := s.link }
    if s.pw then [t1, { t1 with pw := true }] else [t1]
  | none => [{ t with row := 0, col := 0, pw := false, pen := {}, link := [] }]

/-! ### the step function -/

def one (t : T) : Res := .accept [t]

/-- `u` if the cursor is in the pending-wrap state, else `f t`. -/
def unlessPw (t : T) (f : T → Res) : Res := if t.pw then .unconstrained else f t

def step (t : T) : Tok → Res
  | .print g w =>
    if w = 1 then one (t.writeNarrow g)
    else if w = 2 then (if t.cols ≥ 2 then one (t.writeWide g) else .unconstrained)
    else .unconstrained
  | .cr => one { t with col := 0, pw := false }
  | .lf => unlessPw t fun t => one t.indCore
  | .ind => unlessPw t fun t => one t.indCore
  | .nel => unlessPw t fun t => one { t.indCore with col := 0 }
  | .ri => unlessPw t fun t => one t.riCore
  | .cup a b => one { t with row := absPos a t.rows, col := absPos b t.cols, pw := false }
  | .cha n => one { t with col := absPos n t.cols, pw := false }
  | .vpa n => one { t with row := absPos n t.rows, pw := false }
  | .cuu n => unlessPw t fun t => one (t.cuuCore n)
  | .cud n => unlessPw t fun t => one (t.cudCore n)
  | .cuf n => unlessPw t fun t => one { t with col := min (t.col + d1 n) (t.cols - 1) }
  | .cub n => unlessPw t fun t => one { t with col := t.col - d1 n }
  | .cnl n => unlessPw t fun t => one { t.cudCore n with col := 0 }
  | .cpl n => unlessPw t fun t => one { t.cuuCore n with col := 0 }
  | .el n => unlessPw t fun t =>
    if n = 0 then one (t.modRow t.row fun row => blankRange row t.col t.cols t.blank)
    else if n = 1 then one (t.modRow t.row fun row => blankRange row 0 (t.col + 1) t.blank)
    else if n = 2 then one (t.modRow t.row fun _ => t.blankRow)
    else .unconstrained
  | .ed n => unlessPw t fun t =>
    if n = 0 then
      let t1 := t.modRow t.row fun row => blankRange row t.col t.cols t.blank
      one (t1.setGrid (t1.grid.mapIdx fun i row => if i > t.row then t.blankRow else row))
    else if n = 1 then
      let t1 := t.modRow t.row fun row => blankRange row 0 (t.col + 1) t.blank
      one (t1.setGrid (t1.grid.mapIdx fun i row => if i < t.row then t.blankRow else row))
    else if n = 2 then one (t.setGrid (List.replicate t.rows t.blankRow))
    else .unconstrained
  | .ech n => unlessPw t fun t =>
    one (t.modRow t.row fun row => blankRange row t.col (min (t.col + d1 n) t.cols) t.blank)
  | .ich n => unlessPw t fun t =>
    let m := min (d1 n) (t.cols - t.col)
    one (t.modRow t.row fun row =>
      row.take t.col ++ List.replicate m t.blank ++ (row.drop t.col).take (t.cols - t.col - m))
  | .dch n => unlessPw t fun t =>
    let m := min (d1 n) (t.cols - t.col)
    one (t.modRow t.row fun row => row.take t.col ++ row.drop (t.col + m) ++ List.replicate m t.blank)
  | .il n => unlessPw t fun t =>
    if t.top ≤ t.row ∧ t.row ≤ t.bottom then
      let t1 := t.scrollDown t.row t.bottom (d1 n)
      .accept [t1, { t1 with col := 0 }]
    else one t
  | .dl n => unlessPw t fun t =>
    if t.top ≤ t.row ∧ t.row ≤ t.bottom then
      let t1 := t.scrollUp t.row t.bottom (d1 n)
      .accept [t1, { t1 with col := 0 }]
    else one t
  | .su n => one (t.scrollUp t.top t.bottom (d1 n))
  | .sd n => one (t.scrollDown t.top t.bottom (d1 n))
  | .decstbm a b =>
    let top := d1 a
    let bot := if b = 0 then t.rows else b
    let set (bot : Nat) : T := { t with top := top - 1, bottom := bot - 1, row := 0, col := 0, pw := false }
    if bot ≤ t.rows then (if top < bot then one (set bot) else one t)
    else .accept ((if top < t.rows then [set t.rows] else [t]) ++ [t])
  | .decsc => one t.save
  | .decrc => .accept t.restore
  | .altOn =>
    if t.onAlt then .unconstrained
    else
      let t1 := t.save
      -- Appendix A: the alternate screen is entirely blank with the default background; xterm
      -- clears it with the current background (bce): both are accepted.
      .accept ([{ t1 with onAlt := true, alt := blankGrid t.rows t.cols }] ++
        (if t.pen.bg = .default then [] else [{ t1 with onAlt := true, alt := blankGrid t.rows t.cols t.pen.bg }]))
  | .altOff =>
    if !t.onAlt then .unconstrained
    else .accept ({ t with onAlt := false } : T).restore
  | .sgr params => one { t with pen := Spec.sgr t.pen params }
  | .showCursor on => one { t with cursorVisible := on }
  | .cursorShape n => one { t with cursorShape := n }
  | .osc8 _ url => one { t with link := url }
  | .ris => one (T.init t.rows t.cols)
  | .ignored => one t

/-! ### comparison -/

/-- On screen, a space glyph without underline, strike-through or reverse video is the same as a
    blank cell with that background (its foreground and weight are invisible). -/
def TCell.norm : TCell → TCell
  | .glyph g w st link =>
    if g = [32] ∧ w = 1 ∧ st.ulStyle = 0 ∧ st.strike = false ∧ st.reverse = false ∧ link = [] then .blank st.bg
    else .glyph g w st link
  | c => c

/-- Does the cell `actual` satisfy what the reference says (`spec`)? `poison` accepts anything; the
    content under a `cont` cell is not visible and is not compared. -/
def TCell.accepts (spec actual : TCell) : Bool :=
  match spec with
  | .poison => true
  | .cont => true
  | s => s.norm = actual.norm

def rowAccepts (spec actual : TRow) : Bool :=
  spec.length = actual.length && (spec.zip actual).all fun p => p.1.accepts p.2

def gridAccepts (spec actual : TGrid) : Bool :=
  spec.length = actual.length && (spec.zip actual).all fun p => rowAccepts p.1 p.2

/-- Display state (active grid, cursor, pending wrap, pen, margins, screen selector, saved cursor of
    the active screen) of `actual` is what `spec` says. -/
def T.accepts (spec actual : T) : Bool :=
  spec.rows = actual.rows && spec.cols = actual.cols && spec.onAlt = actual.onAlt &&
  spec.row = actual.row && spec.col = actual.col && spec.pw = actual.pw &&
  spec.pen = actual.pen && spec.link = actual.link && spec.top = actual.top && spec.bottom = actual.bottom &&
  gridAccepts spec.grid actual.grid

end VaxisModel.Spec.Term

section tests
open VaxisModel.Spec VaxisModel.Spec.Term

private def run (t : T) (ts : List Tok) : Option T :=
  ts.foldlM (fun t tok => match step t tok with | .accept (t' :: _) => some t' | _ => none) t

-- printing to the last column sets pending wrap; the next glyph wraps and scrolls at the bottom
example : (run (T.init 1 2) [.print [97] 1, .print [98] 1]).map (fun t => (t.row, t.col, t.pw)) = some (0, 1, true) := by decide
example : (run (T.init 1 2) [.print [97] 1, .print [98] 1, .print [99] 1]).map (fun t => t.primary) =
    some [[.glyph [99] 1 {} [], .blank .default]] := by decide
-- overwriting the left half of a wide glyph poisons the right half
example : (run (T.init 1 3) [.print [228, 184, 150] 2, .cup 1 1, .print [97] 1]).map (fun t => t.primary) =
    some [[.glyph [97] 1 {} [], .poison, .blank .default]] := by decide
-- CUP with zero parameters is home
example : (run (T.init 3 3) [.cup 3 3, .cup 0 0]).map (fun t => (t.row, t.col)) = some (0, 0) := by decide
-- DECSTBM with a bottom margin below the screen: clamped or ignored
example : (match step (T.init 3 3) (.decstbm 1 9) with | .accept l => l.map (fun t => (t.top, t.bottom)) | _ => []) = [(0, 2), (0, 2)] := by decide
end tests
