/-
Independent specification for C13 (keys, pastes and mouse events forwarded into the embedded
terminal), written from xterm's ctlseqs ("Mouse Tracking", "Bracketed Paste Mode", "Alternate
scroll", DECCKM) and from the property text — not from widgets/term/*.go.
Core Lean only.
-/
import VaxisModel.Model.Key
import VaxisModel.Model.Mouse
import VaxisModel.Model.TermMouse
import VaxisModel.Model.TermInputModes
import VaxisModel.Spec.KeyEnc

namespace VaxisModel.Spec.TermInput
open VaxisModel.Model.Key VaxisModel.Model.Mouse VaxisModel.Spec.KeyEnc
open VaxisModel.Model.TermMouse (Modes)
open VaxisModel.Gen.Keys

/-! ## Keys -/

/-- The modifiers the xterm legacy protocol knows. -/
def xtermMods (k : Key) : Nat := k.mods &&& (shiftBit ||| altBit ||| ctrlBit)

/-- The character Shift produces on the key, as far as the event tells: the shifted code, else a
    one-rune text, else — for a lower-case letter — its upper case. 0 = unknown. -/
def shiftedOf (u : Uni) (k : Key) : Int :=
  if k.shifted > 0 then k.shifted else match k.text with
    | [c] => c
    | _ => if u.isLower k.keycode then u.toUpper k.keycode else 0

/-- The character the chord denotes: the key itself, or what Shift produces on it. -/
def producedChar (u : Uni) (k : Key) : Int :=
  if xtermMods k &&& shiftBit ≠ 0 then shiftedOf u k else k.keycode

/-- The event is a chord rather than a text production: without Alt/Ctrl, its text (if any) is the one
    character the chord denotes.  A text that is anything else — a grapheme cluster of several code
    points, the character caps lock / an AltGr level / a compose sequence turned the key into — is
    what the user typed; the legacy protocol reports that text and nothing distinguishes it from
    typing the text directly, so the key clause does not apply (`textDue` does). -/
def textIsChord (u : Uni) (k : Key) : Bool :=
  decide (xtermMods k &&& (altBit ||| ctrlBit) ≠ 0) || decide (k.text = []) || decide (k.text = [producedChar u k])

/-- **XtermDomain**: the chords the xterm legacy encoding can express with a single report that
    *Vaxis's own input pipeline reads back as one event* (see `Spec.KeyEnc.xtermLegacy`); explicit and
    decidable.  Outside, with the reason:
    * Ctrl+Alt (+Shift) + character: xterm expresses it as `ESC` + the C0 byte, but Vaxis's parser has
      no single event for `ESC` + C0 (the C0 byte is dispatched on its own, the `ESC` is dropped or left
      pending), so no encoding of the legacy protocol can round-trip; what *is* written is pinned to
      xterm's form by `altCtrlXterm` / `C13Ext.alt_ctrl_letter_is_xterm`;
    * Ctrl + a character without a control code (digits 0 1 9, space, most punctuation, non-ASCII) and
      Ctrl+Shift: the legacy protocol has no encoding of the chord (xterm sends the plain character);
    * Ctrl + h i m [ : the C0 byte is BackSpace / Tab / Enter / Escape;
    * Shift on a non-letter, Alt + a byte that starts an escape sequence, F13+, media keys;
    * keypad keys (key codes of their own) are not judged through this domain but through the keypad clause
      `keypadJudgedAs` below (application-mode code, or as the event of the key the keypad key stands for);
    * events that are text productions (`textIsChord` false). -/
def XtermDomain (u : Uni) (k : Key) : Bool :=
  (xtermLegacy k.keycode (xtermMods k) (shiftedOf u k) false).isSome &&
  -- an event carrying a longer text (composed input) is forwarded as that text, not as a chord
  decide (k.text.length ≤ 1) && textIsChord u k

/-- **Text clause** ("keys and pastes arrive intact"): an event of a character key (or Tab / Enter /
    Escape / BackSpace — anything that is not one of the special keys above `MaxRune`) that carries text and neither Alt nor Ctrl is typed or pasted
    text; the child must receive exactly that text.  (Shift+Tab is the back-tab key.) -/
def textDue (k : Key) : Bool :=
  decide (k.text ≠ []) && decide (k.keycode ≤ maxRune) &&
  decide (xtermMods k &&& (altBit ||| ctrlBit) = 0) && !(decide (k.keycode = KeyTab) && decide (xtermMods k = shiftBit))

/-- xterm's legacy report of Ctrl+Alt(+Shift) + a character that has a control code (`@ a–z [ \ ] ^ _`):
    `ESC` followed by the C0 byte (metaSendsEscape). -/
def altCtrlXterm (kc : Int) : Option Str := (ctrlByte kc).map fun b => [27, b]

/-- Non-ASCII character keys (code points ≥ 128): the legacy protocol sends the character (UTF-8);
    Shift is expressible exactly when the character Shift produces is an upper-case letter whose lower
    case is the key (so that Vaxis reads it back as Shift + key).  There is no Ctrl encoding.  Alt
    (xterm: `ESC` + the UTF-8 character) is *not* in the domain: Vaxis's parser has no transition for a
    rune ≥ 0x80 in its escape state and drops both the `ESC` and the character, so no event at all comes
    back (a host-parser limitation, like `ESC` + C0 for Ctrl+Alt); that the widget writes xterm's form
    is `C13.alt_char_roundtrip` / `C13Ext.alt_shift_letter_roundtrip` (byte half). `none` = not in the
    domain. -/
def xtermLegacyU (u : Uni) (key : Int) (mods : Nat) (shifted : Int) : Option Seq :=
  if ¬(128 ≤ key ∧ key < maxRune ∧ validRune key = true) then none
  else if mods = 0 then
    (if u.isUpper key = true ∧ u.toLower key = 127 then none else some (.print [key]))
  else if mods = shiftBit then
    if u.isUpper shifted = true ∧ u.toLower shifted = key ∧ validRune shifted = true ∧ 0 < shifted then some (.print [shifted])
    else none
  else none

/-- `XtermDomain` extended to non-ASCII character keys. -/
def XtermDomainU (u : Uni) (k : Key) : Bool :=
  XtermDomain u k ||
  ((xtermLegacyU u k.keycode (xtermMods k) (shiftedOf u k)).isSome && decide (k.text.length ≤ 1) && textIsChord u k)

/-- The forwarded key arrives intact: the bytes, parsed by Vaxis's own pipeline, are exactly one
    sequence whose decoded key `k'` matches the original key code and xterm modifiers. -/
def keyArrives (u : Uni) (k k' : Key) : Prop := matchSpec u k' k.keycode (xtermMods k)

instance (u : Uni) (k k' : Key) : Decidable (keyArrives u k k') := by unfold keyArrives; exact inferInstance

/-! ### Shifted-code chords

Shift (optionally with Alt, never Ctrl) on an ASCII character key whose event *reports the character
Shift produces* (`ShiftedCode > 0`: kitty "alternate keys", or Vaxis's own decoding of an upper-case
byte).  The xterm legacy encoding expresses such a chord by the produced character — `:` for
Shift+`;`, `@` for Shift+`2`, `ESC :` with Alt — and nothing in the report says which key produced
it, so the chord's identity on the wire is *(produced character, modifiers without Shift)*.  That is
also how the original event is bound (`Key.Matches` rule 3: `ShiftedCode == key` with Shift removed).
So the clause for these chords is: the widget writes exactly that report, and Vaxis's own pipeline
reads it back as an event that matches the binding (produced character, modifiers without Shift) —
the binding the original event matches.  (For a letter whose shifted code is its upper case this
coincides with the `XtermDomain` clause, which additionally demands a match on (key, Shift).)
Not expressible (`none`): Ctrl held; no shifted code reported; a produced character outside printable
ASCII; with Alt, a produced character that starts an escape sequence for a VT parser (0x20–0x2F,
`O P [ \ ] X ^ _`). -/

/-- The xterm legacy report of a shifted-code chord. -/
def shiftedLegacy (k : Key) : Option Seq :=
  let xm := xtermMods k
  let sh := k.shifted
  if xm &&& shiftBit = 0 ∨ xm &&& ctrlBit ≠ 0 then none
  else if ¬(32 ≤ k.keycode ∧ k.keycode < 127) then none
  else if ¬(32 < sh ∧ sh < 127) then none
  else if xm &&& altBit ≠ 0 then
    (if sh < 48 ∨ sh = 79 ∨ sh = 80 ∨ sh = 91 ∨ sh = 93 ∨ sh = 88 ∨ sh = 94 ∨ sh = 95 ∨ sh = 92 then none else some (.esc sh))
  else some (.print [sh])

/-- The event is a shifted-code chord (not a text production: without Alt its text, if any, is the
    produced character). -/
def ShiftedDomain (k : Key) : Bool :=
  (shiftedLegacy k).isSome &&
  (decide (k.text = []) || decide (k.text = [k.shifted]) || decide (xtermMods k &&& altBit ≠ 0))

/-- A shifted-code chord arrives intact: the decoded event matches the binding
    (produced character, modifiers without Shift). -/
def shiftedArrives (u : Uni) (k k' : Key) : Prop := matchSpec u k' k.shifted (unshift (xtermMods k))

instance (u : Uni) (k k' : Key) : Decidable (shiftedArrives u k k') := by unfold shiftedArrives; exact inferInstance

/-- Cursor keys (and Home/End): the child's DECCKM selects SS3 (application) or CSI (normal). -/
def cursorKeys : List (Int × Int) :=
  [(KeyUp, 65), (KeyDown, 66), (KeyRight, 67), (KeyLeft, 68), (KeyEnd, 70), (KeyHome, 72), (KeyKeyPadBegin, 69)]

def cursorSeq (final : Int) (decckm : Bool) : Seq := if decckm then .ss3 final else .csi [] final

/-! ## Wire format of a parsed sequence (the inverse of the ansi parser on these shapes) -/

open VaxisModel.Model.TermKey (decimal) in
def renderParams : List (List Int) → Str
  | [] => []
  | [p] => (p.map decimal).intersperse [58] |>.flatten
  | p :: rest => ((p.map decimal).intersperse [58] |>.flatten) ++ [59] ++ renderParams rest

def renderCSI (inter : List Int) (params : List (List Int)) (final : Int) : Str :=
  [27, 91] ++ inter ++ renderParams params ++ [final]

def renderSeq : Seq → Str
  | .print g => g
  | .c0 b => [b]
  | .esc f => [27, f]
  | .ss3 b => [27, 79, b]
  | .csi params final => renderCSI [] params final

/-- The explicit key round-trip check for one event and one key-mode combination: if the xterm
    legacy protocol expresses the chord, the encoder writes exactly that report and the report,
    decoded by Vaxis, matches the original key and xterm modifiers. -/
def roundtripOK (u : Uni) (k : Key) (deckpam decckm : Bool) : Bool :=
  match xtermLegacy k.keycode (xtermMods k) (shiftedOf u k) decckm with
  | none => true
  | some s =>
    decide (VaxisModel.Model.TermKey.encodeXterm u k deckpam decckm = renderSeq s) &&
    decide (keyArrives u k (decodeKey u s))

/-! ## Mouse -/

def isWheel (b : Int) : Bool := b = 64 ∨ b = 65
def isMotion (m : Mouse) : Bool := m.event = EventMotion

/-- xterm: 1000 reports presses and releases (wheel included); 1002 adds motion while a button is down;
    1003 adds all motion.  1006 only selects the encoding. -/
def enabledFor (md : Modes) (m : Mouse) : Bool :=
  if m.event = EventPress ∨ m.event = EventRelease then md.mouseButtons || md.mouseDrag || md.mouseMotion
  else if m.event = EventMotion then
    if m.button = 3 then md.mouseMotion else md.mouseDrag || md.mouseMotion
  else false

/-- Alternate scroll (mode 1007) translates wheel events into cursor keys on the alternate screen
    when the child has not asked for mouse reports. -/
def altScrollApplies (md : Modes) (m : Mouse) : Bool :=
  md.altScroll && md.smcup && !(md.mouseButtons || md.mouseDrag || md.mouseMotion) && isWheel m.button

/-- SGR report (mode 1006): `CSI < b ; col+1 ; row+1 M|m`, `b` = button (+32 for motion). -/
def sgrReport (m : Mouse) : Option (List Int × List (List Int) × Int) :=
  if m.event = EventPress then some ([60], [[m.button], [m.col + 1], [m.row + 1]], 77)
  else if m.event = EventRelease then some ([60], [[m.button], [m.col + 1], [m.row + 1]], 109)
  else if m.event = EventMotion then some ([60], [[m.button + 32], [m.col + 1], [m.row + 1]], 77)
  else none

/-- The `MouseButton` constants of the API (left, middle, right, none, wheel up/down, buttons 8–11). -/
def buttonConsts : List Int := [0, 1, 2, 3, 64, 65, 128, 129, 130, 131]

/-- A real mouse event: a button of the API, a position on the screen, press / release / motion. -/
def realMouse (m : Mouse) : Bool :=
  buttonConsts.contains m.button && decide (0 ≤ m.col) && decide (0 ≤ m.row) &&
  (m.event = EventPress || m.event = EventRelease || m.event = EventMotion)

/-- Same button, position and press/release/motion type. -/
def sameMouse (a b : Mouse) : Bool := a.button = b.button ∧ a.col = b.col ∧ a.row = b.row ∧ a.event = b.event

/-! ## Modes as the child selects them (xterm ctlseqs: DECSET / DECRST, DECKPAM / DECKPNM, RIS) -/

open VaxisModel.Model.TermInputModes (ChildOp) in
/-- Standard meaning of one private mode number being set (`v = true`) or reset. Entering the
    alternate screen (1049) turns alternate scroll on and leaving it turns it off — the emulator's
    documented default for mode 1007 ("enable altScroll in the alt screen"), which the property does
    not constrain; every other number touches only its own mode. -/
def specParam (v : Bool) (md : Modes) (n : Int) : Modes :=
  if n = 1 then { md with decckm := v }
  else if n = 1000 then { md with mouseButtons := v }
  else if n = 1002 then { md with mouseDrag := v }
  else if n = 1003 then { md with mouseMotion := v }
  else if n = 1006 then { md with mouseSGR := v }
  else if n = 1007 then { md with altScroll := v }
  else if n = 1049 then { md with smcup := v, altScroll := v }
  else if n = 2004 then { md with paste := v }
  else md

open VaxisModel.Model.TermInputModes (ChildOp) in
/-- `ESC =` / `ESC >` select application / numeric keypad; `ESC c` (RIS) is a full reset to the
    power-on state: no application cursor keys or keypad, no bracketed paste, no mouse reporting, SGR
    encoding off, primary screen. -/
def specApply (md : Modes) : ChildOp → Modes
  | .set ns => ns.foldl (specParam true) md
  | .reset ns => ns.foldl (specParam false) md
  | .pam => { md with deckpam := true }
  | .pnm => { md with deckpam := false }
  | .ris => {}

open VaxisModel.Model.TermInputModes (ChildOp) in
def specModes (ops : List ChildOp) : Modes := ops.foldl specApply {}

open VaxisModel.Model.TermInputModes (ChildOp ChildSeq) in
/-- Which of the child's sequences select input modes, by the standard (xterm ctlseqs): `CSI ? Pm h`
    (DECSET), `CSI ? Pm l` (DECRST), `ESC =` (DECKPAM), `ESC >` (DECKPNM), `ESC c` (RIS).  Nothing else
    does: ANSI SM / RM (`CSI Pm h` / `CSI Pm l` without `?`) address a different mode space (`CSI 1000 h`
    is not mouse tracking), prints, cursor movement, erasing, SGR, DECSC / DECRC, OSC / DCS / APC strings
    and a resize of the window leave the input modes alone.  (DECSTR, `CSI ! p`, would return the cursor
    keys and the keypad to their normal modes; this emulator does not implement it — it answers DA as a
    VT220 without soft reset — so it selects nothing here; see notes/C13.md.) -/
def childOpOf : ChildSeq → Option ChildOp
  | .csi [63, 104] ps => some (.set ps)
  | .csi [63, 108] ps => some (.reset ps)
  | .esc [61] => some .pam
  | .esc [62] => some .pnm
  | .esc [99] => some .ris
  | _ => none

open VaxisModel.Model.TermInputModes (ChildOp) in
def specStep (md : Modes) : Option ChildOp → Modes
  | some c => specApply md c
  | none => md

open VaxisModel.Model.TermInputModes (ChildSeq) in
/-- The modes the child's stream selected, from `md`. -/
def specModesFrom (md : Modes) (seqs : List ChildSeq) : Modes := (seqs.filterMap childOpOf).foldl specApply md

open VaxisModel.Model.TermInputModes (ChildSeq) in
/-- The modes the child's stream selected on a fresh terminal (power-on state). -/
def specModesOfStream (seqs : List ChildSeq) : Modes := specModesFrom {} seqs

/-- The nine mode bits as a number (bit order of the drivers). -/
def modesOfNat (n : Nat) : Modes :=
  let b (i : Nat) : Bool := n / 2 ^ i % 2 == 1
  { deckpam := b 0, decckm := b 1, paste := b 2, mouseButtons := b 3, mouseDrag := b 4,
    mouseMotion := b 5, mouseSGR := b 6, altScroll := b 7, smcup := b 8 }

/-- The private mode numbers that matter, plus some that must not. -/
def modeNumbers : List Int := [1, 1000, 1002, 1003, 1006, 1007, 1049, 2004, 2, 7, 25, 12, 1004, 0]

/-! ## The numeric keypad (xterm ctlseqs, "PC-Style Function Keys" / VT220 keypad)

A host whose terminal speaks the kitty keyboard protocol receives the keypad keys as key codes of their own
(`KeyKeyPad0` … `KeyKeyPadBegin`).  What xterm sends for them depends on the child's keypad mode: in numeric mode
(DECKPNM, the default) the character printed on the key (Enter: CR); in application mode (DECKPAM) `SS3` + a final
byte.  The navigation legends of the keypad send what the corresponding editing / cursor key sends. -/

/-- (keypad key, character sent in numeric mode, `SS3` final sent in application mode). -/
def keypadChars : List (Int × Int × Int) :=
  [(KeyKeyPad0, 48, 112), (KeyKeyPad1, 49, 113), (KeyKeyPad2, 50, 114), (KeyKeyPad3, 51, 115), (KeyKeyPad4, 52, 116),
   (KeyKeyPad5, 53, 117), (KeyKeyPad6, 54, 118), (KeyKeyPad7, 55, 119), (KeyKeyPad8, 56, 120), (KeyKeyPad9, 57, 121),
   (KeyKeyPadDecimal, 46, 110), (KeyKeyPadDivide, 47, 111), (KeyKeyPadMultiply, 42, 106), (KeyKeyPadSubtract, 45, 109),
   (KeyKeyPadAdd, 43, 107), (KeyKeyPadEnter, 13, 77), (KeyKeyPadEqual, 61, 88), (KeyKeyPadSeparator, 44, 108)]

/-- (keypad navigation key, the editing / cursor key it doubles). -/
def keypadNav : List (Int × Int) :=
  [(KeyKeyPadLeft, KeyLeft), (KeyKeyPadRight, KeyRight), (KeyKeyPadUp, KeyUp), (KeyKeyPadDown, KeyDown),
   (KeyKeyPadPageUp, KeyPgUp), (KeyKeyPadPageDown, KeyPgDown), (KeyKeyPadHome, KeyHome), (KeyKeyPadEnd, KeyEnd),
   (KeyKeyPadInsert, KeyInsert), (KeyKeyPadDelete, KeyDelete)]

/-- What is due for an unmodified keypad key without text, by the child's keypad and cursor-key modes
    (`none`: not a keypad key this table speaks about — `KeyKeyPadBegin` is left out). -/
def keypadDue (kc : Int) (deckpam decckm : Bool) : Option Str :=
  match keypadChars.find? (·.1 = kc) with
  | some (_, ch, fin) => some (if deckpam then [27, 79, fin] else [ch])
  | none =>
    match keypadNav.find? (·.1 = kc) with
    | some (_, nav) => (xtermLegacy nav 0 0 decckm).map renderSeq
    | none => none

/-- `KeyKeyPadBegin` (the 5 key of the keypad without NumLock; xterm's Begin key): `CSI E`, under DECCKM `SS3 E`,
    with modifiers `CSI 1 ; m E`. -/
def keypadBeginLegacy (mods : Nat) (decckm : Bool) : Option Seq :=
  if mods ≥ 8 then none
  else if mods = 0 then some (cursorSeq 69 decckm)
  else some (.csi [[1], [(mods : Int) + 1]] 69)

/-- The key a keypad key stands for — what its legend says: the character (Enter: the Enter key), or the cursor /
    editing key.  `none`: not a keypad key with a legend (`KeyKeyPadBegin` is a key of its own). -/
def keypadStandsFor (kc : Int) : Option Int :=
  match keypadChars.find? (·.1 = kc) with
  | some (_, ch, _) => some ch
  | none => (keypadNav.find? (·.1 = kc)).map (·.2)

/-- **Application keypad mode** (xterm): an *unmodified* digit / operator / Enter key of the keypad sends `SS3` + its
    final byte when the child selected DECKPAM — unless Num Lock is on, which overrides the keypad mode (xterm's
    `numLock` resource, the default).  `none`: application mode does not apply to this event. -/
def keypadApplication (k : Key) (deckpam : Bool) : Option Str :=
  if deckpam = true ∧ k.mods &&& (shiftBit ||| altBit ||| ctrlBit ||| numBit) = 0 then
    (keypadChars.find? (·.1 = k.keycode)).map fun e => [27, 79, e.2.2]
  else none

/-- **Keypad clause**: what the event of a keypad key is judged as.  `inl bytes`: exactly these bytes are due
    (application mode).  `inr k'`: the event is judged as the event `k'` of the key the keypad key stands for
    (numeric mode, Num Lock, modified keys, the navigation legends): in the legacy protocol a keypad key in numeric
    mode *is* that key — nothing on the wire distinguishes them — so "arrives intact" means the ordinary clauses
    hold for `k'`.  `none`: not a keypad key (or `KeyKeyPadBegin`, which has reports of its own). -/
def keypadJudgedAs (k : Key) (deckpam : Bool) : Option (Str ⊕ Key) :=
  match keypadApplication k deckpam with
  | some b => some (.inl b)
  | none => (keypadStandsFor k.keycode).map fun l => .inr { k with keycode := l }

/-! ## Paste -/
def pasteStartSeq : Seq := .csi [[200]] 126
def pasteEndSeq : Seq := .csi [[201]] 126

/-- What the host pipeline makes of a bracketed paste: the two boundaries and, for the payload, one
    item per parsed sequence — a grapheme cluster (`ansi.Print`) or a C0 byte. -/
inductive PasteItem where
  | start
  | stop
  | grapheme (g : Str)
  | c0 (b : Int)
deriving DecidableEq, Repr

/-- The bytes (code points) of an item in the source text of the paste. -/
def PasteItem.source : PasteItem → Str
  | .start => renderSeq pasteStartSeq
  | .stop => renderSeq pasteEndSeq
  | .grapheme g => g
  | .c0 b => [b]

/-- What the child must receive for an item: payload items byte-identical, a boundary as its marker
    iff the child enabled bracketed paste (mode 2004), else nothing. -/
def PasteItem.due (md : Modes) : PasteItem → Str
  | .start => if md.paste then renderSeq pasteStartSeq else []
  | .stop => if md.paste then renderSeq pasteEndSeq else []
  | .grapheme g => g
  | .c0 b => [b]

/-- The event `handleSequence` posts for an item (`pending` = `vx.pastePending` when it is decoded). -/
def PasteItem.event (u : Uni) (pending : Bool) : PasteItem → VaxisModel.Model.TermMouse.Event
  | .start => .pasteStart
  | .stop => .pasteEnd
  | .grapheme g => .key { decodeKey u (.print g) with event := if pending then EventPaste else EventPress }
  | .c0 b => .key { decodeKey u (.c0 b) with event := if pending then EventPaste else EventPress }

/-- `vx.pastePending` after `handleSequence` has seen the item. -/
def PasteItem.pendingAfter (pending : Bool) : PasteItem → Bool
  | .start => true
  | .stop => false
  | _ => pending

/-- `handleSequence` over a list of items, threading `pastePending`. -/
def pasteEvents (u : Uni) : Bool → List PasteItem → List VaxisModel.Model.TermMouse.Event
  | _, [] => []
  | pending, it :: rest => it.event u pending :: pasteEvents u (it.pendingAfter pending) rest

def PasteItem.isPayload : PasteItem → Bool
  | .grapheme _ => true
  | .c0 _ => true
  | _ => false

/-- Payload items the theorem covers: a non-empty grapheme cluster of code points whose first code
    point `c` is a rune (DEL only alone — uniseg never joins a control character to anything — and an
    upper-case `c` whose lower case is an ordinary key code), or a C0 byte other than BS (0x08: the
    host's `decodeKey` reports BS and DEL as the same key, BackSpace, so BS arrives as DEL). -/
def PasteItem.ok (u : Uni) : PasteItem → Prop
  | .start => True
  | .stop => True
  | .grapheme g => g ≠ [] ∧ 0 ≤ g.headD 0 ∧ g.headD 0 ≤ maxRune ∧ (g.headD 0 = 127 → g = [127]) ∧
      (u.isUpper (g.headD 0) = true → u.toLower (g.headD 0) ≤ maxRune ∧ u.toLower (g.headD 0) ≠ 9 ∧ u.toLower (g.headD 0) ≠ 127)
  | .c0 b => 0 ≤ b ∧ b < 32 ∧ b ≠ 8

/-- Everything written to the child for a list of events handed to `Model.Update` one after the other. -/
def forward (u : Uni) (md : Modes) (evs : List VaxisModel.Model.TermMouse.Event) : Str :=
  (evs.map (VaxisModel.Model.TermMouse.update u md)).flatten

end VaxisModel.Spec.TermInput
