/-
Independent specification for C13 (keys, pastes and mouse events forwarded into the embedded
terminal), written from xterm's ctlseqs ("Mouse Tracking", "Bracketed Paste Mode", "Alternate
scroll", DECCKM) and from the property text — not from widgets/term/*.go.
Core Lean only.
-/
import VaxisModel.Model.Key
import VaxisModel.Model.Mouse
import VaxisModel.Model.TermMouse
import VaxisModel.Model.TermInputModes
import VaxisModel.Spec.KeyEnc

namespace VaxisModel.Spec.TermInput
open VaxisModel.Model.Key VaxisModel.Model.Mouse VaxisModel.Spec.KeyEnc
open VaxisModel.Model.TermMouse (Modes)
open VaxisModel.Gen.Keys

/-! ## Keys -/

/-- The modifiers the xterm legacy protocol knows. -/
def xtermMods (k : Key) : Nat := k.mods &&& (shiftBit ||| altBit ||| ctrlBit)

/-- The character Shift produces on the key, as far as the event tells: the shifted code, else a
    one-rune text, else — for a lower-case letter — its upper case. 0 = unknown. -/
def shiftedOf (u : Uni) (k : Key) : Int :=
  if k.shifted > 0 then k.shifted else match k.text with
    | [c] => c
    | _ => if u.isLower k.keycode then u.toUpper k.keycode else 0

/-- **XtermDomain**: the chords the xterm legacy encoding can express with a single unambiguous
    report (see `Spec.KeyEnc.xtermLegacy`); explicit and decidable. -/
def XtermDomain (u : Uni) (k : Key) : Bool :=
  (xtermLegacy k.keycode (xtermMods k) (shiftedOf u k) false).isSome &&
  -- an event carrying a longer text (composed input) is forwarded as that text, not as a chord
  decide (k.text.length ≤ 1)

/-- The forwarded key arrives intact: the bytes, parsed by Vaxis's own pipeline, are exactly one
    sequence whose decoded key `k'` matches the original key code and xterm modifiers. -/
def keyArrives (u : Uni) (k k' : Key) : Prop := matchSpec u k' k.keycode (xtermMods k)

instance (u : Uni) (k k' : Key) : Decidable (keyArrives u k k') := by unfold keyArrives; exact inferInstance

/-- Cursor keys (and Home/End): the child's DECCKM selects SS3 (application) or CSI (normal). -/
def cursorKeys : List (Int × Int) := [(KeyUp, 65), (KeyDown, 66), (KeyRight, 67), (KeyLeft, 68), (KeyEnd, 70), (KeyHome, 72)]

def cursorSeq (final : Int) (decckm : Bool) : Seq := if decckm then .ss3 final else .csi [] final

/-! ## Wire format of a parsed sequence (the inverse of the ansi parser on these shapes) -/

open VaxisModel.Model.TermKey (decimal) in
def renderParams : List (List Int) → Str
  | [] => []
  | [p] => (p.map decimal).intersperse [58] |>.flatten
  | p :: rest => ((p.map decimal).intersperse [58] |>.flatten) ++ [59] ++ renderParams rest

def renderCSI (inter : List Int) (params : List (List Int)) (final : Int) : Str :=
  [27, 91] ++ inter ++ renderParams params ++ [final]

def renderSeq : Seq → Str
  | .print g => g
  | .c0 b => [b]
  | .esc f => [27, f]
  | .ss3 b => [27, 79, b]
  | .csi params final => renderCSI [] params final

/-- The explicit key round-trip check for one event and one key-mode combination: if the xterm
    legacy protocol expresses the chord, the encoder writes exactly that report and the report,
    decoded by Vaxis, matches the original key and xterm modifiers. -/
def roundtripOK (u : Uni) (k : Key) (deckpam decckm : Bool) : Bool :=
  match xtermLegacy k.keycode (xtermMods k) (shiftedOf u k) decckm with
  | none => true
  | some s =>
    decide (VaxisModel.Model.TermKey.encodeXterm u k deckpam decckm = renderSeq s) &&
    decide (keyArrives u k (decodeKey u s))

/-! ## Mouse -/

def isWheel (b : Int) : Bool := b = 64 ∨ b = 65
def isMotion (m : Mouse) : Bool := m.event = EventMotion

/-- xterm: 1000 reports presses and releases (wheel included); 1002 adds motion while a button is down;
    1003 adds all motion.  1006 only selects the encoding. -/
def enabledFor (md : Modes) (m : Mouse) : Bool :=
  if m.event = EventPress ∨ m.event = EventRelease then md.mouseButtons || md.mouseDrag || md.mouseMotion
  else if m.event = EventMotion then
    if m.button = 3 then md.mouseMotion else md.mouseDrag || md.mouseMotion
  else false

/-- Alternate scroll (mode 1007) translates wheel events into cursor keys on the alternate screen
    when the child has not asked for mouse reports. -/
def altScrollApplies (md : Modes) (m : Mouse) : Bool :=
  md.altScroll && md.smcup && !(md.mouseButtons || md.mouseDrag || md.mouseMotion) && isWheel m.button

/-- SGR report (mode 1006): `CSI < b ; col+1 ; row+1 M|m`, `b` = button (+32 for motion). -/
def sgrReport (m : Mouse) : Option (List Int × List (List Int) × Int) :=
  if m.event = EventPress then some ([60], [[m.button], [m.col + 1], [m.row + 1]], 77)
  else if m.event = EventRelease then some ([60], [[m.button], [m.col + 1], [m.row + 1]], 109)
  else if m.event = EventMotion then some ([60], [[m.button + 32], [m.col + 1], [m.row + 1]], 77)
  else none

/-- The `MouseButton` constants of the API (left, middle, right, none, wheel up/down, buttons 8–11). -/
def buttonConsts : List Int := [0, 1, 2, 3, 64, 65, 128, 129, 130, 131]

/-- A real mouse event: a button of the API, a position on the screen, press / release / motion. -/
def realMouse (m : Mouse) : Bool :=
  buttonConsts.contains m.button && decide (0 ≤ m.col) && decide (0 ≤ m.row) &&
  (m.event = EventPress || m.event = EventRelease || m.event = EventMotion)

/-- Same button, position and press/release/motion type. -/
def sameMouse (a b : Mouse) : Bool := a.button = b.button ∧ a.col = b.col ∧ a.row = b.row ∧ a.event = b.event

/-! ## Modes as the child selects them (xterm ctlseqs: DECSET / DECRST, DECKPAM / DECKPNM, RIS) -/

open VaxisModel.Model.TermInputModes (ChildOp) in
/-- Standard meaning of one private mode number being set (`v = true`) or reset. Entering the
    alternate screen (1049) turns alternate scroll on and leaving it turns it off — the emulator's
    documented default for mode 1007 ("enable altScroll in the alt screen"), which the property does
    not constrain; every other number touches only its own mode. -/
def specParam (v : Bool) (md : Modes) (n : Int) : Modes :=
  if n = 1 then { md with decckm := v }
  else if n = 1000 then { md with mouseButtons := v }
  else if n = 1002 then { md with mouseDrag := v }
  else if n = 1003 then { md with mouseMotion := v }
  else if n = 1006 then { md with mouseSGR := v }
  else if n = 1007 then { md with altScroll := v }
  else if n = 1049 then { md with smcup := v, altScroll := v }
  else if n = 2004 then { md with paste := v }
  else md

open VaxisModel.Model.TermInputModes (ChildOp) in
/-- `ESC =` / `ESC >` select application / numeric keypad; `ESC c` (RIS) is a full reset to the
    power-on state: no application cursor keys or keypad, no bracketed paste, no mouse reporting, SGR
    encoding off, primary screen. -/
def specApply (md : Modes) : ChildOp → Modes
  | .set ns => ns.foldl (specParam true) md
  | .reset ns => ns.foldl (specParam false) md
  | .pam => { md with deckpam := true }
  | .pnm => { md with deckpam := false }
  | .ris => {}

open VaxisModel.Model.TermInputModes (ChildOp) in
def specModes (ops : List ChildOp) : Modes := ops.foldl specApply {}

/-- The nine mode bits as a number (bit order of the drivers). -/
def modesOfNat (n : Nat) : Modes :=
  let b (i : Nat) : Bool := n / 2 ^ i % 2 == 1
  { deckpam := b 0, decckm := b 1, paste := b 2, mouseButtons := b 3, mouseDrag := b 4,
    mouseMotion := b 5, mouseSGR := b 6, altScroll := b 7, smcup := b 8 }

/-- The private mode numbers that matter, plus some that must not. -/
def modeNumbers : List Int := [1, 1000, 1002, 1003, 1006, 1007, 1049, 2004, 2, 7, 25, 12, 1004, 0]

/-! ## Paste -/
def pasteStartSeq : Seq := .csi [[200]] 126
def pasteEndSeq : Seq := .csi [[201]] 126

end VaxisModel.Spec.TermInput
