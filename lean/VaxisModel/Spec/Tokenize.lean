/-
Spec.Tokenize — bytes written to the console → renderer tokens (`Model.Render.Tok`).
A plain ECMA-48 lexer for the sequences Vaxis writes: CSI (with private marker, `;`/`:` parameters,
intermediates), OSC (ST- or BEL-terminated), DCS/APC/PM/SOS strings, two-byte escapes, NUL, and
text runs.  Text runs are cut into graphemes by longest match against the run's grapheme
dictionary (the harness lists the graphemes it used; segmentation proper — uniseg — is modelled,
not verified).  Total by fuel (= input length).
-/
import VaxisModel.Model.Render
import VaxisModel.Driver.Common

namespace VaxisModel.Spec.Tokenize
open VaxisModel.Model.Render (Tok)
/-- Hex of a byte list; the empty list is the empty string. -/
def hexOfBytes (l : List Nat) : String := if l.isEmpty then "" else VaxisModel.Driver.hexOfBytes l

def isDigit (b : Nat) : Bool := 48 ≤ b ∧ b ≤ 57

/-- Parse CSI parameter bytes (0x30–0x3F without the private marker) into `[[a,b],[c]]`. -/
def parseParams (bs : List Nat) : List (List Nat) :=
  if bs.isEmpty then [] else
  let rec go : List Nat → Nat → List Nat → List (List Nat) → List (List Nat)
    | [], cur, sub, acc => (acc ++ [sub ++ [cur]])
    | b :: rest, cur, sub, acc =>
      if isDigit b then go rest (cur * 10 + (b - 48)) sub acc
      else if b = 58 then go rest 0 (sub ++ [cur]) acc            -- ':'
      else if b = 59 then go rest 0 [] (acc ++ [sub ++ [cur]])    -- ';'
      else go rest cur sub acc
  go bs 0 [] []

def splitOnByte (sep : Nat) (bs : List Nat) : List (List Nat) :=
  let rec go : List Nat → List Nat → List (List Nat) → List (List Nat)
    | [], cur, acc => acc ++ [cur]
    | b :: rest, cur, acc => if b = sep then go rest [] (acc ++ [cur]) else go rest (cur ++ [b]) acc
  go bs [] []

def bytesToNat? (bs : List Nat) : Option Nat :=
  if bs.isEmpty then none else
  bs.foldl (fun acc b => match acc with
    | none => none
    | some n => if isDigit b then some (n * 10 + (b - 48)) else none) (some 0)

def intercalateBytes (sep : Nat) : List (List Nat) → List Nat
  | [] => []
  | [x] => x
  | x :: xs => x ++ [sep] ++ intercalateBytes sep xs

def csiTok (priv : Option Nat) (ps : List Nat) (inter : List Nat) (final : Nat) (raw : List Nat) : Tok :=
  let params := parseParams ps
  let first : Nat := match params with | (n :: _) :: _ => n | _ => 0
  match priv, inter, final with
  | none, [], 72 =>                                    -- H
      match params with
      | [] => .cup 1 1
      | [[r]] => .cup (if r = 0 then 1 else r) 1
      | [[r], [c]] => .cup (if r = 0 then 1 else r) (if c = 0 then 1 else c)
      | _ => .other (hexOfBytes raw)
  | none, [], 109 => .sgr params                       -- m
  | some 63, [], 104 => if params.length = 1 then .decset first else .other (hexOfBytes raw)   -- ?…h
  | some 63, [], 108 => if params.length = 1 then .decrst first else .other (hexOfBytes raw)   -- ?…l
  | none, [32], 113 => .cursorStyle first              -- SP q
  | _, _, _ => .other (hexOfBytes raw)

def oscTok (payload : List Nat) (raw : List Nat) : Tok :=
  match splitOnByte 59 payload with
  | [k, p, u] =>
      if k = [56] then .osc8 (hexOfBytes p) (hexOfBytes u)
      else if k = [54, 54] then                         -- 66;w=N;text
        match p with
        | 119 :: 61 :: ds => match bytesToNat? ds with
            | some n => .textW n (hexOfBytes u)
            | none => .other (hexOfBytes raw)
        | _ => .other (hexOfBytes raw)
      else .other (hexOfBytes raw)
  | k :: p :: u :: more =>
      if k = [56] then .osc8 (hexOfBytes p) (hexOfBytes (intercalateBytes 59 (u :: more)))
      else .other (hexOfBytes raw)
  | [k, s] => if k = [50, 50] then .pointer (hexOfBytes s) else .other (hexOfBytes raw)
  | _ => .other (hexOfBytes raw)

def isPrefix : List Nat → List Nat → Bool
  | [], _ => true
  | _ :: _, [] => false
  | a :: as, b :: bs => a == b && isPrefix as bs

/-- Longest dictionary entry that is a prefix of `bs` (dictionary entries are byte lists). -/
def longestMatch (dict : List (List Nat)) (bs : List Nat) : Option (List Nat) :=
  dict.foldl (fun best e =>
    if e.isEmpty ∨ !isPrefix e bs then best else
    match best with
    | none => some e
    | some b => if e.length > b.length then some e else best) none

/-- Length of the UTF-8 sequence introduced by lead byte `b` (1 for anything invalid). -/
def utf8Len (b : Nat) : Nat :=
  if b < 0x80 then 1 else if b < 0xC0 then 1 else if b < 0xE0 then 2 else if b < 0xF0 then 3 else if b < 0xF8 then 4 else 1

/-- Collect bytes up to (not including) a string terminator: BEL, or ESC \. Returns payload and the rest. -/
def takeString : Nat → List Nat → List Nat → List Nat × List Nat
  | 0, bs, acc => (acc, bs)
  | _, [], acc => (acc, [])
  | _ + 1, 7 :: rest, acc => (acc, rest)
  | _ + 1, 27 :: 92 :: rest, acc => (acc, rest)
  | f + 1, b :: rest, acc => takeString f rest (acc ++ [b])

def isParamByte (b : Nat) : Bool := 0x30 ≤ b ∧ b ≤ 0x3F
def isInterByte (b : Nat) : Bool := 0x20 ≤ b ∧ b ≤ 0x2F

def tokenize (dict : List (List Nat)) : Nat → List Nat → List Tok → List Tok
  | 0, _, acc => acc
  | _, [], acc => acc
  | f + 1, 0 :: rest, acc => tokenize dict f rest acc                     -- NUL is ignored
  | f + 1, 27 :: 91 :: rest, acc =>                                        -- CSI
      let (priv, r1) := match rest with
        | b :: r => if 0x3C ≤ b ∧ b ≤ 0x3F then (some b, r) else (none, rest)
        | [] => (none, [])
      let ps := r1.takeWhile isParamByte
      let r2 := r1.dropWhile isParamByte
      let inter := r2.takeWhile isInterByte
      let r3 := r2.dropWhile isInterByte
      match r3 with
      | final :: r4 =>
          let raw := [27, 91] ++ (match priv with | some b => [b] | none => []) ++ ps ++ inter ++ [final]
          tokenize dict f r4 (acc ++ [csiTok priv ps inter final raw])
      | [] => acc ++ [.other (hexOfBytes (27 :: 91 :: rest))]
  | f + 1, 27 :: 93 :: rest, acc =>                                        -- OSC
      let (payload, r) := takeString (rest.length + 1) rest []
      tokenize dict f r (acc ++ [oscTok payload (27 :: 93 :: payload)])
  | f + 1, 27 :: b :: rest, acc =>
      if b = 80 ∨ b = 95 ∨ b = 94 ∨ b = 88 then                           -- DCS APC PM SOS
        let (payload, r) := takeString (rest.length + 1) rest []
        tokenize dict f r (acc ++ [.other (hexOfBytes (27 :: b :: payload))])
      else tokenize dict f rest (acc ++ [.other (hexOfBytes [27, b])])
  | f + 1, b :: rest, acc =>
      if b = 27 then acc ++ [.other "1b"]
      else
        let bs := b :: rest
        let g := match longestMatch dict bs with
          | some e => e
          | none => bs.take (utf8Len b)
        tokenize dict f (bs.drop g.length) (acc ++ [.text (hexOfBytes g)])

def tokens (dict : List (List Nat)) (bs : List Nat) : List Tok := tokenize dict (bs.length + 1) bs []

end VaxisModel.Spec.Tokenize
