/-!
`clUax`: the extended-grapheme-cluster rules of UAX #29 that matter for the C17 harness atoms (GB4 break
after a control character, GB6–8 Hangul jamo, GB9 Extend/ZWJ, GB11 emoji ZWJ sequences, GB12/13
regional-indicator pairs), as a state machine over the class of each atom (`cls a`: `L V T` jamo, `E`
Extend, `Z` ZWJ, `P` Extended_Pictographic, `R` Regional_Indicator, `C` Control, anything else Other).
The C17 driver compares it with the real uniseg on every op; `Props/C17Seg.lean` proves it is a
`Spec.Editor.Segmentation` for every class function.  Core Lean only.
-/
namespace VaxisModel.Spec.Uax29

structure SegSt where
  cur : List Nat := []           -- current cluster, reversed
  done : List (List Nat) := []   -- finished clusters, reversed
  prev : Char := '-'             -- class of the previous atom
  pictExt : Bool := false        -- current cluster matches ExtPict Extend*
  pictZwj : Bool := false        -- … ExtPict Extend* ZWJ
  riRun : Nat := 0               -- regional indicators directly before

def segStep (cls : Nat → Char) (st : SegSt) (a : Nat) : SegSt :=
  let c := cls a
  let join : Bool :=
    st.prev != '-' && st.prev != 'C' &&   -- GB4: always break after a control character
    ((st.prev == 'L' && (c == 'L' || c == 'V')) ||
     (st.prev == 'V' && (c == 'V' || c == 'T')) ||
     (st.prev == 'T' && c == 'T') ||
     c == 'E' || c == 'Z' ||
     (st.pictZwj && c == 'P') ||
     (st.prev == 'R' && c == 'R' && st.riRun % 2 == 1))
  let pictExt := if c == 'P' then true else if c == 'E' then join && st.pictExt else false
  let pictZwj := c == 'Z' && join && st.pictExt
  let riRun := if c == 'R' then st.riRun + 1 else 0
  if join then { st with cur := a :: st.cur, prev := c, pictExt := pictExt, pictZwj := pictZwj, riRun := riRun }
  else { cur := [a], done := if st.cur.isEmpty then st.done else st.cur.reverse :: st.done,
         prev := c, pictExt := pictExt, pictZwj := pictZwj, riRun := riRun }

def clUax (cls : Nat → Char) (x : List Nat) : List (List Nat) :=
  let st := x.foldl (segStep cls) {}
  (if st.cur.isEmpty then st.done else st.cur.reverse :: st.done).reverse

end VaxisModel.Spec.Uax29
