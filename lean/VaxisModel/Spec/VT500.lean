/-
Spec for C02: Paul Flo Williams' DEC VT500-series parser (https://vt100.net/emu/dec_ansi_parser),
transcribed as data from the published state table — NOT from ansi/parser.go — plus the library's
documented extensions as explicit overrides, and a small reference machine that turns the actions
into delivered sequences.  Core Lean only.

Extensions (the property text names them):
  E1  0x3A (colon) is a parameter byte in csi entry / csi param (sub-parameters).
  E2  SS3: `ESC O` enters an ss3 state; the next non-C0, non-DEL rune is delivered as SS3.
  E3  APC: `ESC _` collects a payload (delivered when the string ends); SOS/PM stay ignored.
  E4  BEL (0x07) terminates an OSC string.
  E5  The `ESC \` (ST) that ends a control string is not delivered as an escape sequence
      (an `ESC \` whose ESC did not arrive inside a control string is delivered; a run of ESCs
      that started inside the string still counts as its terminator).
  E6  0x7F in the escape state is dispatched (Alt+Backspace).
  E7  Input is UTF-8 text: runes ≥ 0x80 are never 8-bit C1 controls.  They are printed in ground,
      are payload in OSC/DCS/APC strings, are ignored where everything is ignored, and anywhere else
      (escape, CSI, DCS header) they make the sequence malformed: it is abandoned, nothing is
      delivered for it and the parser is back in ground (an `error` item may be reported).
-/
namespace VaxisModel.Spec.VT500

/-- Williams' fourteen states, plus the two extension states. -/
inductive S
  | ground | escape | escapeIntermediate | csiEntry | csiParam | csiIntermediate | csiIgnore
  | dcsEntry | dcsParam | dcsIntermediate | dcsPassthrough | dcsIgnore | oscString | sosPmApcString
  | apcString | ss3
  deriving DecidableEq, Repr, Inhabited

/-- Williams' actions (ignore = empty list), plus the extension actions. -/
inductive A
  | print | execute | clear | collect | param | escDispatch | csiDispatch
  | hook | put | unhook | oscStart | oscPut | oscEnd
  | ss3Dispatch | apcStart | apcPut | apcEnd
  | stOrDispatch        -- E5: esc_dispatch unless this ESC ended a control string
  deriving DecidableEq, Repr, Inhabited

/-- One line of the published table: codes lo–hi / action / optional target state. -/
structure Row where
  lo : Nat
  hi : Nat
  act : List A
  to : Option S          -- none: no state change (no exit/entry actions)
  deriving DecidableEq, Repr, Inhabited

def r (lo hi : Nat) (act : List A) (to : Option S := none) : Row := ⟨lo, hi, act, to⟩

/-- "anywhere" transitions (7-bit part; the 8-bit C1 part is switched off by E7). -/
def anywhereRows : List Row := [
  r 0x18 0x18 [.execute] (some .ground),
  r 0x1A 0x1A [.execute] (some .ground),
  r 0x1B 0x1B [] (some .escape)]

/-- event 00-17,19,1C-1F with a given action -/
def c0rows (act : List A) : List Row := [r 0x00 0x17 act, r 0x19 0x19 act, r 0x1C 0x1F act]

/-- The published table, state by state (codes 00–7F). -/
def williams : S → List Row
  | .ground => c0rows [.execute] ++ [r 0x20 0x7F [.print]]
  | .escape => c0rows [.execute] ++ [
      r 0x7F 0x7F [],
      r 0x20 0x2F [.collect] (some .escapeIntermediate),
      r 0x30 0x4F [.escDispatch] (some .ground),
      r 0x51 0x57 [.escDispatch] (some .ground),
      r 0x59 0x59 [.escDispatch] (some .ground),
      r 0x5A 0x5A [.escDispatch] (some .ground),
      r 0x5C 0x5C [.escDispatch] (some .ground),
      r 0x60 0x7E [.escDispatch] (some .ground),
      r 0x5B 0x5B [] (some .csiEntry),
      r 0x5D 0x5D [] (some .oscString),
      r 0x50 0x50 [] (some .dcsEntry),
      r 0x58 0x58 [] (some .sosPmApcString),
      r 0x5E 0x5E [] (some .sosPmApcString),
      r 0x5F 0x5F [] (some .sosPmApcString)]
  | .escapeIntermediate => c0rows [.execute] ++ [
      r 0x20 0x2F [.collect],
      r 0x7F 0x7F [],
      r 0x30 0x7E [.escDispatch] (some .ground)]
  | .csiEntry => c0rows [.execute] ++ [
      r 0x7F 0x7F [],
      r 0x20 0x2F [.collect] (some .csiIntermediate),
      r 0x3A 0x3A [] (some .csiIgnore),
      r 0x30 0x39 [.param] (some .csiParam),
      r 0x3B 0x3B [.param] (some .csiParam),
      r 0x3C 0x3F [.collect] (some .csiParam),
      r 0x40 0x7E [.csiDispatch] (some .ground)]
  | .csiParam => c0rows [.execute] ++ [
      r 0x30 0x39 [.param],
      r 0x3B 0x3B [.param],
      r 0x7F 0x7F [],
      r 0x3A 0x3A [] (some .csiIgnore),
      r 0x3C 0x3F [] (some .csiIgnore),
      r 0x20 0x2F [.collect] (some .csiIntermediate),
      r 0x40 0x7E [.csiDispatch] (some .ground)]
  | .csiIntermediate => c0rows [.execute] ++ [
      r 0x20 0x2F [.collect],
      r 0x7F 0x7F [],
      r 0x30 0x3F [] (some .csiIgnore),
      r 0x40 0x7E [.csiDispatch] (some .ground)]
  | .csiIgnore => c0rows [.execute] ++ [
      r 0x20 0x3F [],
      r 0x7F 0x7F [],
      r 0x40 0x7E [] (some .ground)]
  | .dcsEntry => c0rows [] ++ [
      r 0x7F 0x7F [],
      r 0x3A 0x3A [] (some .dcsIgnore),
      r 0x20 0x2F [.collect] (some .dcsIntermediate),
      r 0x30 0x39 [.param] (some .dcsParam),
      r 0x3B 0x3B [.param] (some .dcsParam),
      r 0x3C 0x3F [.collect] (some .dcsParam),
      r 0x40 0x7E [] (some .dcsPassthrough)]
  | .dcsParam => c0rows [] ++ [
      r 0x30 0x39 [.param],
      r 0x3B 0x3B [.param],
      r 0x7F 0x7F [],
      r 0x3A 0x3A [] (some .dcsIgnore),
      r 0x3C 0x3F [] (some .dcsIgnore),
      r 0x20 0x2F [.collect] (some .dcsIntermediate),
      r 0x40 0x7E [] (some .dcsPassthrough)]
  | .dcsIntermediate => c0rows [] ++ [
      r 0x20 0x2F [.collect],
      r 0x7F 0x7F [],
      r 0x30 0x3F [] (some .dcsIgnore),
      r 0x40 0x7E [] (some .dcsPassthrough)]
  | .dcsPassthrough => c0rows [.put] ++ [
      r 0x20 0x7E [.put],
      r 0x7F 0x7F []]
  | .dcsIgnore => c0rows [] ++ [r 0x20 0x7F []]
  | .oscString => c0rows [] ++ [r 0x20 0x7F [.oscPut]]
  | .sosPmApcString => c0rows [] ++ [r 0x20 0x7F []]
  -- extension states (E2, E3): defined here, not by Williams
  | .apcString => c0rows [] ++ [r 0x20 0x7F [.apcPut]]
  | .ss3 => c0rows [.execute] ++ [r 0x7F 0x7F [], r 0x20 0x7E [.ss3Dispatch] (some .ground)]

/-- Entry and exit actions of the states. -/
def entry : S → List A
  | .escape | .csiEntry | .dcsEntry => [.clear]
  | .dcsPassthrough => [.hook]
  | .oscString => [.oscStart]
  | .apcString => [.apcStart]
  | _ => []

def exit : S → List A
  | .dcsPassthrough => [.unhook]
  | .oscString => [.oscEnd]
  | .apcString => [.apcEnd]
  | _ => []

/-- The documented extensions, consulted before the published table. -/
def overrides : S → List Row
  | .csiEntry => [r 0x3A 0x3A [.param] (some .csiParam)]                     -- E1
  | .csiParam => [r 0x3A 0x3A [.param]]                                      -- E1
  | .escape => [
      r 0x4F 0x4F [] (some .ss3),                                            -- E2
      r 0x5F 0x5F [] (some .apcString),                                      -- E3
      r 0x5C 0x5C [.stOrDispatch] (some .ground),                            -- E5
      r 0x7F 0x7F [.escDispatch] (some .ground)]                             -- E6
  | .oscString => [r 0x07 0x07 [] (some .ground)]                            -- E4
  | _ => []

/-- E7: what a rune ≥ 0x80 does in each state. -/
def high : S → List A × Option S
  | .ground => ([.print], none)
  | .oscString => ([.oscPut], none)
  | .dcsPassthrough => ([.put], none)
  | .apcString => ([.apcPut], none)
  | .dcsIgnore | .sosPmApcString | .csiIgnore => ([], none)
  | .ss3 => ([.ss3Dispatch], some .ground)
  | _ => ([], some .ground)          -- malformed: abandon, back to ground

def findRow : List Row → Nat → Option Row
  | [], _ => none
  | x :: rest, c => if x.lo ≤ c ∧ c ≤ x.hi then some x else findRow rest c

/-- Parser input: a rune or the end of input. -/
inductive In | rune (c : Nat) | eof
  deriving DecidableEq, Repr, Inhabited

/-- Full transition: all actions performed (exit, transition, entry) and the new state.
    At end of input the exit action of the current state is performed. -/
def trans (s : S) : In → List A × S
  | .eof => (exit s, s)
  | .rune c =>
    if 0x80 ≤ c then
      match high s with
      | (a, none) => (a, s)
      | (a, some t) => (exit s ++ a ++ entry t, t)
    else match findRow anywhereRows c with
      | some x => (exit s ++ x.act ++ entry (x.to.getD s), x.to.getD s)
      | none =>
        match findRow (overrides s ++ williams s) c with
        | some ⟨_, _, a, none⟩ => (a, s)
        | some ⟨_, _, a, some t⟩ => (exit s ++ a ++ entry t, t)
        | none => ([], .ground)      -- table is total on 00–7F (checked: `table_total`)

/-- The control-string states (for E5). -/
def isString : S → Bool
  | .dcsPassthrough | .dcsIgnore | .oscString | .sosPmApcString | .apcString => true
  | _ => false

/-! ### Reference machine: what is delivered -/

inductive Item
  | print (c : Nat)
  | c0 (c : Nat)
  | esc (inter : List Nat) (final : Nat)
  | ss3 (c : Nat)
  | csi (inter : List Nat) (params : List (List Nat)) (final : Nat)
  | osc (payload : List Nat)
  | dcs (final : Nat) (inter : List Nat) (params : List Nat) (data : List Nat)
  | apc (data : List Nat)
  deriving DecidableEq, Repr, Inhabited

/-- Split a list at every occurrence of `sep`. -/
def splitAt (sep : Nat) : List Nat → List (List Nat)
  | [] => [[]]
  | c :: rest =>
    match splitAt sep rest with
    | [] => [[]]                       -- unreachable
    | hd :: tl => if c = sep then [] :: hd :: tl else (c :: hd) :: tl

def number (ds : List Nat) : Nat := ds.foldl (fun v d => 10 * v + (d - 0x30)) 0

/-- Parameter string → parameters with sub-parameters: `;` separates parameters, `:` separates
    sub-parameters, an empty field is 0; an empty string has no parameters. -/
def parseParams (ps : List Nat) : List (List Nat) :=
  if ps = [] then [] else (splitAt 0x3B ps).map fun p => (splitAt 0x3A p).map number

/-- DCS parameters have no sub-parameters. -/
def parseDcsParams (ps : List Nat) : List Nat :=
  if ps = [] then [] else (splitAt 0x3B ps).map number

structure M where
  s : S := .ground
  inter : List Nat := []
  params : List Nat := []
  afterString : Bool := false      -- E5: the ESC that brought us to `escape` ended a control string
  fresh : Bool := false            -- the current state was entered by the previous rune (used by `Dev` only)
  osc : List Nat := []
  apc : List Nat := []
  dFinal : Nat := 0
  dInter : List Nat := []
  dParams : List Nat := []
  dData : List Nat := []
  deriving DecidableEq, Repr, Inhabited

def act (m : M) (c : Nat) : A → M × List Item
  | .print => (m, [.print c])
  | .execute => (m, [.c0 c])
  | .clear => ({ m with inter := [], params := [] }, [])
  | .collect => ({ m with inter := m.inter ++ [c] }, [])
  | .param => ({ m with params := m.params ++ [c] }, [])
  | .escDispatch => (m, [.esc m.inter c])
  | .stOrDispatch => (m, if m.afterString then [] else [.esc m.inter c])
  | .csiDispatch => (m, [.csi m.inter (parseParams m.params) c])
  | .hook => ({ m with dFinal := c, dInter := m.inter, dParams := parseDcsParams m.params, dData := [] }, [])
  | .put => ({ m with dData := m.dData ++ [c] }, [])
  | .unhook => (m, [.dcs m.dFinal m.dInter m.dParams m.dData])
  | .oscStart => ({ m with osc := [] }, [])
  | .oscPut => ({ m with osc := m.osc ++ [c] }, [])
  | .oscEnd => (m, [.osc m.osc])
  | .ss3Dispatch => (m, [.ss3 c])
  | .apcStart => ({ m with apc := [] }, [])
  | .apcPut => ({ m with apc := m.apc ++ [c] }, [])
  | .apcEnd => (m, [.apc m.apc])

def acts (m : M) (c : Nat) : List A → M × List Item
  | [] => (m, [])
  | a :: rest =>
    let (m1, o1) := act m c a
    let (m2, o2) := acts m1 c rest
    (m2, o1 ++ o2)

/-- Known deviations of the implementation from E5, as switches of the reference machine.  The
    spec proper is `Dev.none`; the driver uses the switches only to *name* a failure precisely
    (so that a known finding is matched by what exactly went wrong, not by the input's shape). -/
structure Dev where
  /-- A control string only counts as open once it has consumed at least one rune after its
      introducer / DCS final (the ST of an empty string is delivered as `ESC \`). -/
  lazyST : Bool := false
  /-- A C0 control executed between the ESC and the `\` drops the suppression. -/
  c0ClearsST : Bool := false
  deriving DecidableEq, Repr, Inhabited

def Dev.none : Dev := {}

def stepRuneD (d : Dev) (m : M) (c : Nat) : M × List Item :=
  let (as, t) := trans m.s (.rune c)
  let (m1, out) := acts m c as
  -- E5 bookkeeping: remember whether an ESC arrived inside a control string
  let inStr := isString m.s && !(d.lazyST && m.fresh)
  let after :=
    if c = 0x1B then (inStr || (m.s = .escape && m.afterString))
    else if t = .escape then (m.afterString && !d.c0ClearsST)
    else false
  ({ m1 with s := t, afterString := after, fresh := decide (t ≠ m.s) }, out)

def stepRune : M → Nat → M × List Item := stepRuneD Dev.none

def runFromD (d : Dev) : M → List Nat → M × List Item
  | m, [] => (m, [])
  | m, c :: rest =>
    let (m1, o1) := stepRuneD d m c
    let (m2, o2) := runFromD d m1 rest
    (m2, o1 ++ o2)

def runFrom : M → List Nat → M × List Item := runFromD Dev.none

/-- What must be delivered for a rune stream, and what *may* additionally be delivered when the
    input ends inside a control string (its exit action). -/
def runD (d : Dev) (w : List Nat) : List Item × List Item :=
  let (m, out) := runFromD d {} w
  (out, (acts m 0 (exit m.s)).2)

def run : List Nat → List Item × List Item := runD Dev.none

/-! ### The Escape key (C08)

A lone ESC followed by silence is the Escape key: it is reported as `C0 0x1B` and whatever follows
is parsed from the ground state (no sequence in progress, no string terminator pending). -/

def escKey (m : M) : M × List Item :=
  ({ m with s := .ground, afterString := false, fresh := false }, [.c0 0x1B])

/-- Run segments of runes; every segment but the last ends in a lone ESC (the ESC itself is the
    last rune of the segment and is processed as ESC: it cancels/ends whatever was in progress). -/
def runSegmentsD (d : Dev) : M → List (List Nat) → M × List Item
  | m, [] => (m, [])
  | m, [w] => runFromD d m w
  | m, w :: rest =>
    let (m1, o1) := runFromD d m w
    let (m2, o2) := escKey m1
    let (m3, o3) := runSegmentsD d m2 rest
    (m3, o1 ++ o2 ++ o3)

def runWithEscKeysD (d : Dev) (segs : List (List Nat)) : List Item × List Item :=
  let (m, out) := runSegmentsD d {} segs
  (out, (acts m 0 (exit m.s)).2)

def runWithEscKeys : List (List Nat) → List Item × List Item := runWithEscKeysD Dev.none

/-! ### UTF-8: every well-formed scalar is one rune; every other byte is delivered raw. -/

def cont (b : Nat) : Bool := decide (0x80 ≤ b ∧ b ≤ 0xBF)

/-- Table 3-7 of the Unicode standard (well-formed UTF-8 byte sequences). -/
def decode1 : List Nat → Nat × Nat
  | [] => (0, 0)
  | b0 :: t =>
    if b0 < 0x80 then (b0, 1) else
    match t with
    | b1 :: t1 =>
      if 0xC2 ≤ b0 ∧ b0 ≤ 0xDF ∧ cont b1 then ((b0 - 0xC0) * 64 + (b1 - 0x80), 2) else
      match t1 with
      | b2 :: t2 =>
        let ok3 := (b0 = 0xE0 ∧ 0xA0 ≤ b1 ∧ b1 ≤ 0xBF) ∨ (0xE1 ≤ b0 ∧ b0 ≤ 0xEC ∧ cont b1) ∨
                   (b0 = 0xED ∧ 0x80 ≤ b1 ∧ b1 ≤ 0x9F) ∨ (0xEE ≤ b0 ∧ b0 ≤ 0xEF ∧ cont b1)
        if ok3 ∧ cont b2 then ((b0 - 0xE0) * 4096 + (b1 - 0x80) * 64 + (b2 - 0x80), 3) else
        match t2 with
        | b3 :: _ =>
          let ok4 := (b0 = 0xF0 ∧ 0x90 ≤ b1 ∧ b1 ≤ 0xBF) ∨ (0xF1 ≤ b0 ∧ b0 ≤ 0xF3 ∧ cont b1) ∨
                     (b0 = 0xF4 ∧ 0x80 ≤ b1 ∧ b1 ≤ 0x8F)
          if ok4 ∧ cont b2 ∧ cont b3 then
            ((b0 - 0xF0) * 262144 + (b1 - 0x80) * 4096 + (b2 - 0x80) * 64 + (b3 - 0x80), 4)
          else (b0, 1)
        | [] => (b0, 1)
      | [] => (b0, 1)
    | [] => (b0, 1)

/-- Invalid bytes are tagged (`invalidMark + b`) so that a checker can tell a raw byte from the
    Latin-1 scalar with the same value; `unmark` gives the rune that is to be delivered. -/
def invalidMark : Nat := 0x1000000
def unmark (c : Nat) : Nat := if c ≥ invalidMark then c - invalidMark else c

def decodeFuelM : Nat → List Nat → List Nat
  | 0, _ => []
  | _, [] => []
  | fuel + 1, bs =>
    let (c, n) := decode1 bs
    (if c ≥ 0x80 ∧ n = 1 then invalidMark + c else c) :: decodeFuelM fuel (bs.drop (max n 1))

def decodeMarked (bs : List Nat) : List Nat := decodeFuelM bs.length bs

def decode (bs : List Nat) : List Nat := (decodeMarked bs).map unmark

end VaxisModel.Spec.VT500
