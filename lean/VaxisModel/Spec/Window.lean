/-
Spec / oracle for C11 (windows clip, text helpers in reading order), written from the property
text, not from window.go.  Core Lean only.

* clip region: a screen cell may change only if it lies in the rectangle of the window and of
  every ancestor, each translated to absolute coordinates, and in the screen;
* placement: an accepted cell lands at the window's absolute origin plus the requested offset;
* reading order: clusters are placed left to right, one cluster per cell write, the column
  advances by the cluster's display width, a new row starts at a line break or when the row is
  full — also when it is too full for the next cluster: no cluster extends beyond the window's row.
-/
import VaxisModel.Model.Window

namespace VaxisModel.Spec.Window
open VaxisModel.Model.Window

/-- Absolute origin of a window: sum of the offsets of the window and all its ancestors. -/
def absOrigin : Win → Int × Int
  | .root c r _ _ => (c, r)
  | .child c r _ _ p => let o := absOrigin p; (o.1 + c, o.2 + r)

/-- `(x,y)` (absolute) lies in the rectangle of `win` itself. -/
def inOwnRect (win : Win) (x y : Int) : Prop :=
  (absOrigin win).1 ≤ x ∧ x < (absOrigin win).1 + win.width ∧
  (absOrigin win).2 ≤ y ∧ y < (absOrigin win).2 + win.height

instance (win : Win) (x y : Int) : Decidable (inOwnRect win x y) := by unfold inOwnRect; infer_instance

/-- `(x,y)` lies in the rectangle of `win` and of every ancestor. -/
def covers : Win → Int → Int → Prop
  | .root c r w h, x, y => inOwnRect (.root c r w h) x y
  | .child c r w h p, x, y => inOwnRect (.child c r w h p) x y ∧ covers p x y

instance decCovers : (win : Win) → (x y : Int) → Decidable (covers win x y)
  | .root c r w h, x, y => by unfold covers; infer_instance
  | .child c r w h p, x, y => by
      unfold covers
      exact @instDecidableAnd _ _ _ (decCovers p x y)

/-- The window followed by all its ancestors. -/
def chain : Win → List Win
  | .root c r w h => [.root c r w h]
  | .child c r w h p => .child c r w h p :: chain p

def inScreen (s : Screen) (x y : Int) : Prop := 0 ≤ x ∧ x < s.cols ∧ 0 ≤ y ∧ y < s.rows

instance (s : Screen) (x y : Int) : Decidable (inScreen s x y) := by unfold inScreen; infer_instance

/-- The clip region of the property statement. -/
def visible (win : Win) (s : Screen) (x y : Int) : Prop := covers win x y ∧ inScreen s x y

instance (win : Win) (s : Screen) (x y : Int) : Decidable (visible win s x y) := by unfold visible; infer_instance

/-- Every window of the chain ends, on the right, no further than its parent does (columns
`[c, c+w)` of the child lie left of the parent's width).  `New` establishes it whatever its
arguments; a struct literal with a `Parent` pointer need not ("the provided constructor methods are
recommended as they will enforce size constraints", window.go). -/
def rightNested : Win → Prop
  | .root _ _ _ _ => True
  | .child c _ w _ p => c + w ≤ p.width ∧ rightNested p

instance decRightNested : (win : Win) → Decidable (rightNested win)
  | .root c r w h => by unfold rightNested; infer_instance
  | .child c r w h p => by
      unfold rightNested
      exact @instDecidableAnd _ _ _ (decRightNested p)

/-! ### Reading-order layout -/

/-- A cluster as the spec sees it: content, display width, "is a line break", style. -/
structure Item where
  g : Nat
  w : Int
  brk : Bool
  st : Nat
deriving Repr, DecidableEq

def Item.cell (it : Item) : Cell := { g := it.g, w := it.w, st := it.st }

/-- Where the pen goes after a cluster of width `w` placed at `(col,row)` in a row of `cols`
cells: advance by the width; when the row is full start the next row. -/
def advance (cols : Int) (col row w : Int) : Int × Int :=
  if col + w ≥ cols then (0, row + 1) else (col + w, row)

/-- Where a cluster of width `w` is written when the pen is at `(col,row)`: at the pen if it fits
in the rest of the row, else at the start of the next row ("the row is full" for this cluster). -/
def fitPen (cols : Int) (col row w : Int) : Int × Int :=
  if col + w > cols then (0, row + 1) else (col, row)

/-- Reading-order layout from pen position `(col,row)`: one write per non-break cluster; a cluster
never extends beyond the row ("never write outside the window"): one that does not fit in the rest
of the row starts the next row, one that is wider than a whole row is not written at all. -/
def layout (cols : Int) : List Item → Int → Int → List Op × Int × Int
  | [], col, row => ([], col, row)
  | it :: rest, col, row =>
      if it.brk then layout cols rest 0 (row + 1)
      else if col + it.w > cols ∧ it.w > cols then layout cols rest col row
      else
        let q := fitPen cols col row it.w
        let p := advance cols q.1 q.2 it.w
        let r := layout cols rest p.1 p.2
        ({ col := q.1, row := q.2, cell := it.cell } :: r.1, r.2)

def totalW : List Item → Int
  | [] => 0
  | i :: r => i.w + totalW r

/-- Word wrapping: a line segment that would fit on a row of its own but not in the rest of the
current row starts on a new row; then its clusters are laid out in reading order. -/
def layoutWrap (cols : Int) : List (List Item) → Int → Int → List Op × Int × Int
  | [], col, row => ([], col, row)
  | seg :: rest, col, row =>
      let t := totalW seg
      let p := if t ≤ cols ∧ t + col > cols then (0, row + 1) else (col, row)
      let a := layout cols seg p.1 p.2
      let b := layoutWrap cols rest a.2.1 a.2.2
      (a.1 ++ b.1, b.2)

/-- Single line, stop when the next cluster does not fit (`Println`). -/
def layoutLine (cols row : Int) : List Item → Int → List Op
  | [], _ => []
  | it :: rest, col =>
      if col + it.w > cols then []
      else { col := col, row := row, cell := it.cell } :: layoutLine cols row rest (col + it.w)

/-- Single line with an ellipsis in place of the first cluster that would not leave room for it
(`PrintTruncate`). -/
def layoutTrunc (cols row : Int) : List Item → Int → List Op
  | [], _ => []
  | it :: rest, col =>
      if col + 1 + it.w > cols then [{ col := col, row := row, cell := { g := gEllipsis, w := 1, st := it.st } }]
      else { col := col, row := row, cell := it.cell } :: layoutTrunc cols row rest (col + it.w)

/-! Abstraction of the model's inputs to spec items: the display width of a cluster is the width
the helper uses after its (conditional) re-measuring. -/

/-- Items of `Print`: a cluster containing a newline is a line break. -/
def printItems (lib : Lib) (rm : Bool) (l : List Styled) : List Item :=
  l.map fun sc => { g := sc.2.g, w := (measured lib rm sc.2).w, brk := lib.hasNL sc.2.g, st := sc.1 }

/-- Items of the single-line helpers: no cluster is treated as a break. -/
def lineItems (lib : Lib) (rm : Bool) (l : List Styled) : List Item :=
  l.map fun sc => { g := sc.2.g, w := (measured lib rm sc.2).w, brk := false, st := sc.1 }

/-- Items of one line segment in `Wrap`: a cluster with a trailing line break is a break. -/
def wrapItems (lib : Lib) (rm : Bool) (st : Nat) (seg : List Raw) : List Item :=
  (characters seg).map fun ch => { g := ch.g, w := (measured lib rm ch).w, brk := lib.trailBrk ch.g, st := st }

def wrapAllItems (lib : Lib) (rm : Bool) (segs : List (Nat × List (List Raw))) : List (List Item) :=
  segs.flatMap fun sg => sg.2.map (wrapItems lib rm sg.1)

/-- Lexicographic reading order on (row, col). -/
def before (a b : Op) : Prop := a.row < b.row ∨ (a.row = b.row ∧ a.col < b.col)

/-! ### Expected effect on the screen (used by the driver's oracle) -/

/-- The last write in `ops` that lands on absolute `(x,y)`. -/
def lastAt (win : Win) (ops : List Op) (x y : Int) : Option Cell :=
  let o := absOrigin win
  ops.foldl (fun acc op => if o.1 + op.col = x ∧ o.2 + op.row = y then some op.cell else acc) none

/-- Expected changed cells, in (y,x) order: visible cells hit by a write get the last such write. -/
def expected (win : Win) (s : Screen) (ops : List Op) : List (Int × Int × Cell) :=
  (upTo s.rows).flatMap fun y => (upTo s.cols).filterMap fun x =>
    if visible win s x y then (lastAt win ops x y).map fun c => (x, y, c) else none

end VaxisModel.Spec.Window
