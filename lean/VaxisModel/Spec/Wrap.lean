import VaxisModel.Model.Wrap
/-
Property oracle for C16 (soft-wrapping preserves the text and respects the width), written from
the property text, independent of the scanner model (it only shares the `Cell` record).
Everything is over natural-number widths (no `uint16`).
-/
namespace VaxisModel.Spec.Wrap
open VaxisModel.Model.Wrap (Cell)

/-- A grapheme that must not be lost: neither whitespace nor a line terminator. -/
def nonWs (c : Cell) : Bool := !c.sp && !c.term

/-- The non-whitespace graphemes (with their styles) of a cell list, in order. -/
def content (l : List Cell) : List Cell := l.filter nonWs

/-- Display width. -/
def natWidth (l : List Cell) : Nat := (l.map (·.w)).sum

/-- Drop trailing whitespace. -/
def trimTrailing (l : List Cell) : List Cell := (l.reverse.dropWhile (·.sp)).reverse

/-- "width ignoring trailing whitespace ≤ width, a single grapheme wider than the line excepted". -/
def lineWidthOK (width : Nat) (l : List Cell) : Bool :=
  natWidth (trimTrailing l) ≤ width ||
  (match trimTrailing l with
   | [c] => width < c.w
   | _ => false)

/-- Conservation: nothing but whitespace and line terminators is lost, order and styles kept. -/
def conserved (input : List Cell) (ls : List (List Cell)) : Bool :=
  content ls.flatten == content input

/-- Index of the emitted line holding each non-whitespace grapheme (in order). -/
def lineIndex (ls : List (List Cell)) : List Nat :=
  (ls.zipIdx.map fun p => (content p.1).map fun _ => p.2).flatten

/-- For every two consecutive non-whitespace graphemes of the input: is there a line terminator
between them?  (`go` walks the input; `seen` = a non-ws grapheme has been seen, `t` = a terminator
since then.) -/
def termBetween : List Cell → Bool → Bool → List Bool
  | [], _, _ => []
  | c :: cs, seen, t =>
    if nonWs c then
      (if seen then [t] else []) ++ termBetween cs true false
    else termBetween cs seen (t || c.term)

/-- "A hard line break always ends the current line": two consecutive non-whitespace graphemes
separated by a line terminator never share a line.  `idx` = `lineIndex` of the output. -/
def hardBreakOK (input : List Cell) (ls : List (List Cell)) : Bool :=
  let idx := (lineIndex ls).toArray
  let tb := (termBetween input false false).toArray
  (List.range tb.size).all fun i =>
    !(tb.getD i false) || (idx.getD i 0 < idx.getD (i + 1) 0)

/-- "A hard line break always ends the current line", read literally: the scanners strip the hard
break that ends a line, so no emitted line contains a line terminator at all (a terminator inside a
line would be a hard break that did not end it). -/
def noTermInLines (ls : List (List Cell)) : Bool :=
  ls.all fun l => l.all fun c => !c.term

/-- Unbreakable runs under a pairwise break oracle: maximal blocks of consecutive cells with no
break opportunity between neighbours and no terminator inside (a terminator ends its block). -/
def runs (lb : Nat → Nat → Bool) : List Cell → List (List Cell)
  | [] => []
  | [c] => [[c]]
  | c :: n :: rest =>
    if c.term || lb c.g n.g then [c] :: runs lb (n :: rest)
    else match runs lb (n :: rest) with
      | r :: rs => (c :: r) :: rs
      | [] => [[c]]

/-- Inside one run: neighbours that are both non-whitespace must share a line when the run fits.
`j` = content index of the next non-ws cell. -/
def splitInner (idx : Array Nat) (fits : Bool) : List Cell → Nat → Bool → Bool
  | [], _, _ => true
  | c :: cs, j, prevNonWs =>
    if nonWs c then
      (if prevNonWs && fits then idx.getD (j - 1) 0 == idx.getD j 0 else true) && splitInner idx fits cs (j + 1) true
    else splitInner idx fits cs j false

def splitRuns (idx : Array Nat) (width : Nat) : List (List Cell) → Nat → Bool
  | [], _ => true
  | r :: rs, k =>
    splitInner idx (natWidth (trimTrailing r) ≤ width) r k false && splitRuns idx width rs (k + (content r).length)

/-- "never split a run of letters that would fit on a line of its own" (pairwise oracle): if two
non-whitespace graphemes that are neighbours inside one unbreakable run land on different lines,
the run's word part (the run without its trailing whitespace) is wider than the line. -/
def noNeedlessSplit (lb : Nat → Nat → Bool) (width : Nat) (input : List Cell)
    (ls : List (List Cell)) : Bool :=
  splitRuns (lineIndex ls).toArray width (runs lb input) 0

/-- The segmenter's own segmentation of a text: the chain of queries from the start, each with the
state the previous one returned (`fuel` bounds the number of segments).  For the plain scanner this
is uniseg's segmentation of the whole text ("runs of letters" in the sense of UAX #14). -/
def segChain {σ : Type} (o : σ → List Cell → Nat × Bool × σ) : Nat → σ → List Cell → List (List Cell)
  | 0, _, _ => []
  | fuel + 1, st, rest =>
    if rest.isEmpty then []
    else rest.take (o st rest).1 :: segChain o fuel (o st rest).2.2 (rest.drop (o st rest).1)

/-- "never split a run of letters that would fit on a line of its own" over a given list of runs
(for the plain scanner: `segChain` of the segmenter): neighbouring non-whitespace graphemes of one
run land on different lines only if the run without its trailing whitespace is wider than the line. -/
def noNeedlessSplitRuns (rs : List (List Cell)) (width : Nat) (ls : List (List Cell)) : Bool :=
  splitRuns (lineIndex ls).toArray width rs 0

end VaxisModel.Spec.Wrap
