import VaxisModel.Model.Wrap
import VaxisModel.Model.Window
/-
Specification side of "the text widgets draw exactly the emitted lines, one per row": what one row
of the surface shows for one line, and what the lines of the hard-wrap widget are.  Independent of
the drawing model (`Model.Layout`) and of the scanners.
-/
namespace VaxisModel.Spec.WrapDraw
open VaxisModel.Model

/-- One row showing `line` from column `col` on, over a background `f`: every grapheme is put at the
column equal to the display width of the graphemes before it; where two graphemes claim the same
column (only behind a zero-width grapheme) the later one is shown. -/
def over : List Window.Cell → Nat → (Nat → Option Window.Cell) → Nat → Option Window.Cell
  | [], _, f => f
  | c :: cs, col, f => over cs (col + c.w.toNat) (fun x => if x = col then some c else f x)

/-- One row of the hard-wrap widget (`RichText.Draw` with `Softwrap = false`), as its code draws
it: graphemes at their columns as in `over`, but the first grapheme that would reach or pass
`Max.Width` (`col + width ≥ maxW`) is replaced by "…" (width 1, style of the replaced cell unless
the widget imposes one) and the rest of the line is dropped. -/
def overHard (maxW : Nat) (est : Option Nat) : List Window.Cell → Nat → (Nat → Option Window.Cell) → Nat → Option Window.Cell
  | [], _, f => f
  | c :: cs, col, f =>
    if col ≥ maxW then f
    else if col + c.w.toNat ≥ maxW then
      fun x => if x = col then some { g := Window.gEllipsis, w := 1, st := est.getD c.st } else f x
    else overHard maxW est cs (col + c.w.toNat) (fun x => if x = col then some c else f x)

/-- Display width of a line (natural numbers). -/
def width (l : List Window.Cell) : Nat := (l.map (·.w.toNat)).sum

/-- The lines of a text for the hard-wrap widget: split at every "\n" grapheme; a final "\n" adds no
empty line; the empty text has no line. -/
def splitNlAux : List Wrap.Cell → List Wrap.Cell → List (List Wrap.Cell)
  | cur, [] => [cur]
  | cur, c :: cs => if c.nl then (if cs.isEmpty then [cur] else cur :: splitNlAux [] cs) else splitNlAux (cur ++ [c]) cs

def splitNl (cells : List Wrap.Cell) : List (List Wrap.Cell) :=
  if cells.isEmpty then [] else splitNlAux [] cells

end VaxisModel.Spec.WrapDraw
