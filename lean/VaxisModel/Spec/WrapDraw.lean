import VaxisModel.Model.Wrap
import VaxisModel.Model.Window
/-
Specification side of "the text widgets draw exactly the emitted lines, one per row": what one row
of the surface shows for one line, and what the lines of the hard-wrap widget are.  Independent of
the drawing model (`Model.Layout`) and of the scanners.
-/
namespace VaxisModel.Spec.WrapDraw
open VaxisModel.Model

/-- One row showing `line` from column `col` on, over a background `f`: every grapheme is put at the
column equal to the display width of the graphemes before it; where two graphemes claim the same
column (only behind a zero-width grapheme) the later one is shown. -/
def over : List Window.Cell → Nat → (Nat → Option Window.Cell) → Nat → Option Window.Cell
  | [], _, f => f
  | c :: cs, col, f => over cs (col + c.w.toNat) (fun x => if x = col then some c else f x)

/-- Display width of a line (natural numbers). -/
def width (l : List Window.Cell) : Nat := (l.map (·.w.toNat)).sum

/-- The "…" that stands for the cut-off part of a line: width 1, in the style the widget imposes
(`Text`) or in the style of the first grapheme it replaces (`RichText`). -/
def ellipsisFor (est : Option Nat) (c : Window.Cell) : Window.Cell :=
  { g := Window.gEllipsis, w := 1, st := est.getD c.st }

/-- A line that does not fit, cut: the graphemes are kept as long as one more column stays free
behind them (`col` = width so far), the first grapheme that would not leave that column is replaced
by the ellipsis and the rest is dropped.  `Props.C16Draw.truncated_is_longest_prefix`: this is the
longest prefix that leaves room for the ellipsis, followed by the ellipsis. -/
def truncated (maxW : Nat) (est : Option Nat) : List Window.Cell → Nat → List Window.Cell
  | [], _ => []
  | c :: cs, col =>
    if col + c.w.toNat + 1 ≤ maxW then c :: truncated maxW est cs (col + c.w.toNat) else [ellipsisFor est c]

/-- **What the hard-wrap widgets (`Softwrap = false`) show for one line**, from the property text:
a line that fits (`width ≤ Max.Width`) as it is; a line that does not fit as its longest prefix that
leaves room for the ellipsis, followed by the ellipsis. -/
def hardLine (maxW : Nat) (est : Option Nat) (line : List Window.Cell) : List Window.Cell :=
  if width line ≤ maxW then line else truncated maxW est line 0

/-- The row loop of the hard-wrap `Draw` when the line does not fit, in the shape of the code (an
auxiliary form used by the proofs; `Lemmas.WrapDraw.overHard_eq_truncated`: it is `over (truncated …)`
on the columns of the widget): graphemes at their columns as in `over`, the first grapheme that
would reach or pass `Max.Width` (`col + width ≥ maxW`) replaced by "…", the rest dropped. -/
def overHard (maxW : Nat) (est : Option Nat) : List Window.Cell → Nat → (Nat → Option Window.Cell) → Nat → Option Window.Cell
  | [], _, f => f
  | c :: cs, col, f =>
    if col ≥ maxW then f
    else if col + c.w.toNat ≥ maxW then
      fun x => if x = col then some { g := Window.gEllipsis, w := 1, st := est.getD c.st } else f x
    else overHard maxW est cs (col + c.w.toNat) (fun x => if x = col then some c else f x)

/-- The lines of a text for the hard-wrap widget: split at every "\n" grapheme; a final "\n" adds no
empty line; the empty text has no line. -/
def splitNlAux : List Wrap.Cell → List Wrap.Cell → List (List Wrap.Cell)
  | cur, [] => [cur]
  | cur, c :: cs => if c.nl then (if cs.isEmpty then [cur] else cur :: splitNlAux [] cs) else splitNlAux (cur ++ [c]) cs

def splitNl (cells : List Wrap.Cell) : List (List Wrap.Cell) :=
  if cells.isEmpty then [] else splitNlAux [] cells

end VaxisModel.Spec.WrapDraw
