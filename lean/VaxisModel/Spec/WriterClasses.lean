import VaxisModel.Gen.Writers

/-!
# C07 — classification of every terminal writer of the root package

`Gen/Writers.lean` (regenerated on every run) lists every call of the root package that writes to
the console or to the frame buffer, with the function it is in, what it writes (the sequences.go
constant, a literal, or an expression) and the conditions it is under.  This file says, from the
property text and the protocols, which class a writer must fall into:

* **probe** — the start-up queries of `sendQueries` (written before anything is known; the
  terminal ignores what it does not implement; listed and interpreted by C04's lifecycle model);
* **gated** — a capability-gated sequence, under a guard that tests the capability;
* **request** — written by an API the application calls to ask for exactly that (clipboard,
  notification, title, application id, bell, cursor-position report, an image object's own
  protocol); Vaxis adds nothing the caller did not ask for.  Capability accessors (`Can*`) exist
  for the application where the terminal can say whether it supports it;
* **baseline** — xterm vocabulary, or plumbing that passes on what a listed caller wrote;
* **modelled** — inside a function whose whole statement list is modelled and judged by the
  gating theorems `render_gated` (C01's renderer) / `lifecycle_gated` (C04's regenerated lists).

Anything else is unclassified and breaks `Props.C07Writers.writers_classified`.
-/
namespace VaxisModel.Spec.WriterClasses
open VaxisModel.Gen.Writers

inductive Cls
  | probe | gated | request | baseline | modelled | unclassified
  deriving DecidableEq, Repr

/-- Capability-gated sequences and the guards that count as "the terminal advertised it". -/
def gatedTable : List (String × List String) := [
  ("kittyKBEnable", ["vx.caps.kittyKeyboard"]), ("kittyKBPop", ["vx.caps.kittyKeyboard"]),
  ("decset sixelScrolling", ["vx.caps.sixels"]), ("decrst sixelScrolling", ["vx.caps.sixels"]),
  ("decset unicodeCore", ["vx.caps.unicodeCore && !vx.caps.explicitWidth"]),
  ("decrst unicodeCore", ["vx.caps.unicodeCore && !vx.caps.explicitWidth"]),
  ("decset colorThemeUpdates", ["vx.caps.colorThemeUpdates"]), ("decrst colorThemeUpdates", ["vx.caps.colorThemeUpdates"]),
  ("dsr", ["vx.caps.colorThemeUpdates"]),
  ("decset inBandResize", ["vx.caps.inBandResize"]), ("decrst inBandResize", ["vx.caps.inBandResize"]),
  ("decset synchronizedUpdate", ["w.vx.caps.synchronizedUpdate"]), ("decrst synchronizedUpdate", ["w.vx.caps.synchronizedUpdate"]),
  ("explicitWidth", ["case true == next.Width > 1 && vx.caps.explicitWidth"]),
  ("ulStyleSet", ["case vx.caps.styledUnderlines == true"]),
  ("ulRGBSet", ["vx.caps.styledUnderlines"]), ("ulIndexSet", ["vx.caps.styledUnderlines"]), ("ulColorReset", ["vx.caps.styledUnderlines"]),
  ("osc4", ["pre:!(!vx.CanReportColor())"]), ("osc10", ["pre:!(!vx.CanReportForegroundColor())"]),
  ("osc11", ["pre:!(!vx.CanReportBackgroundColor())"]),
  ("textAreaSize", ["vx.xtwinops && vx.caps.reportSizeChars && vx.caps.reportSizePixels", "vx.caps.reportSizeChars && vx.caps.reportSizePixels"]),
  ("setAppID", ["vx.caps.osc176"]),
  ("kittyGquery", []), ("kittyKBQuery", []), ("xtsmSixelGeom", []), ("getAppID", []), ("xtversion", []), ("tertiaryAttributes", []),
  ("userCursorStyle", []), ("decrqm synchronizedUpdate", []), ("decrqm unicodeCore", []), ("decrqm colorThemeUpdates", []),
  ("xtgettcap RGB", []), ("xtgettcap Smulx", [])]

/-- Writers that exist to do what the application asked for: (function, what). -/
def requestWriters : List (String × String) := [
  ("Vaxis.ClipboardPush", "osc52put"), ("Vaxis.ClipboardPop", "osc52pop"),
  ("Vaxis.Notify", "osc9notify"), ("Vaxis.Notify", "osc777notify"),
  ("Vaxis.SetTitle", "setTitle"), ("Vaxis.SetAppID", "setAppID"), ("Vaxis.Bell", "expr:[]byte{0x07}"),
  ("Vaxis.CursorPosition", "dsrcpr"),
  ("KittyImage.Draw", "expr:k.buf.Bytes()"), ("KittyImage.Draw", "lit:\x1b_Ga=p,i=%d,p=%d,C=1\x1b\\"),
  ("KittyImage.Draw", "lit:\x1b_Ga=d,d=i,i=%d,p=%d\x1b\\"), ("KittyImage.Destroy", "lit:\x1b_Ga=d,d=I,i=%d\x1b\\"),
  ("Sixel.Draw", "expr:s.buf.Bytes()")]

/-- Baseline vocabulary and plumbing outside the modelled functions. -/
def baselineWhat : List String := [
  "decrst cursorVisibility", "decset cursorVisibility", "sgrReset", "expr:w.vx.showCursor()",
  "expr:p", "expr:s", "expr:w.buf.Bytes()", "primaryAttributes", "cursorStyleSet"]

/-- Functions whose statement lists are modelled as a whole (C01 renderer, C04 lifecycle). -/
def modelledFns : List String := [
  "Vaxis.render", "Vaxis.enableModes", "Vaxis.disableModes", "Vaxis.enterAltScreen", "Vaxis.exitAltScreen",
  "Vaxis.Suspend", "Vaxis.Resume", "Vaxis.Close"]

def classify (w : Writer) : Cls :=
  if w.fn == "Vaxis.sendQueries" then .probe
  else if requestWriters.contains (w.fn, w.what) then .request
  else match gatedTable.lookup w.what with
    | some oks => if w.guards.any (oks.contains ·) then .gated else .unclassified
    | none =>
      if modelledFns.contains w.fn then .modelled
      else if baselineWhat.contains w.what then .baseline
      else .unclassified

/-- Same members, whatever the order and multiplicity (source order is not part of the statements). -/
def sameMembers (a b : List (String × String)) : Bool := a.all (b.contains ·) && b.all (a.contains ·)

end VaxisModel.Spec.WriterClasses
