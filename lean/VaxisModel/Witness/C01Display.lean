/-
Witnesses: the display clause of C01 *as stated* in `Props/C01.lean` (`frame_displays_full`) is
false of the model — not because the renderer is wrong, but because the statement omits five
side conditions.  Each theorem below refutes `frame_displays_full` from one concrete frame that
satisfies the other four conditions, so each condition is individually necessary:

  W1  the terminal must give a single space the width 1 (`cw "20" = 1`): a zero-width grapheme is
      written as " " and the width oracle `cw` is also the terminal's width function;
  W2  an explicit cell width must agree with the terminal's own width of the grapheme unless the
      explicit-width protocol (OSC 66) is in use;
  W3  on a refresh the terminal's grid may be anything *well formed*; a continuation cell that no
      glyph owns makes the reference terminal poison a glyph that was just written;
  W4  a visible cursor must be requested inside the screen (else the CUP of `showCursor()` is
      outside the screen, which the reference terminal flags).

  W5  the terminal must hold no stale hyperlink parameters (`t.linkParams = ""`): `Rest t` only
      says that no hyperlink is open, but the reference terminal stores the parameters separately
      and stamps them on every glyph.

`Props/C01Display.lean` proves the clause with exactly these five hypotheses added.
-/
import VaxisModel.Props.C01

namespace VaxisModel.Witness.C01Display
open VaxisModel.Model.Render VaxisModel.Spec VaxisModel.Spec.Display VaxisModel.Props.C01

/-! ### W1: a space of width ≠ 1 -/

def cw1 : String → Nat := fun _ => 0
def f1 : Frame := { caps := {}, refresh := true, next := [[({} : Cell)]], last := [[({} : Cell)]],
                    cursorNext := {}, cursorLast := {} }
def t1 : Term := Term.init 1 1

theorem w1_bad : (run cw1 t1 (renderFrame cw1 f1).2).bad ≠ none := by decide

theorem frame_displays_full_fails_space : ¬ frame_displays_full := by
  intro h
  have := h cw1 f1 t1 ⟨by decide, by decide, by decide⟩ (by decide) (by decide) (by decide) (by decide) (by decide) (by decide)
    (by decide) (by simp [Fits, f1, FitsRow, Expected.cellWidth, cw1]) (by decide) (fun h => absurd h (by decide))
  exact w1_bad this.1

/-! ### W2: explicit width disagreeing with the terminal's width -/

def cw2 : String → Nat := fun _ => 1
def f2 : Frame := { caps := {}, refresh := true, next := [[({ g := "61", w := 2 } : Cell), {}]],
                    last := [[({} : Cell), {}]], cursorNext := {}, cursorLast := {} }
def t2 : Term := Term.init 2 1

theorem w2_differs : (run cw2 t2 (renderFrame cw2 f2).2).grid ≠ Expected.expected cw2 f2.caps f2.next := by decide

theorem frame_displays_full_fails_width : ¬ frame_displays_full := by
  intro h
  have := h cw2 f2 t2 ⟨by decide, by decide, by decide⟩ (by decide) (by decide) (by decide) (by decide) (by decide) (by decide)
    (by decide) (by simp [Fits, f2, FitsRow, Expected.cellWidth]) (by decide) (fun h => absurd h (by decide))
  exact w2_differs this.2.1

/-! ### W3: refresh from a malformed grid (a continuation cell nobody owns) -/

def cw3 : String → Nat := fun g => if g = "41" then 2 else 1
def f3 : Frame := { caps := {}, refresh := true,
                    next := [[({ g := "41" } : Cell), {}, { g := "63" }]],
                    last := [[({} : Cell), {}, {}]], cursorNext := {}, cursorLast := {} }
def t3 : Term := { Term.init 3 1 with grid := [[DCell.blank, .cont, .cont]] }

theorem w3_differs : (run cw3 t3 (renderFrame cw3 f3).2).grid ≠ Expected.expected cw3 f3.caps f3.next := by decide

theorem frame_displays_full_fails_malformed : ¬ frame_displays_full := by
  intro h
  have := h cw3 f3 t3 ⟨by decide, by decide, by decide⟩ (by decide) (by decide) (by decide) (by decide) (by decide) (by decide)
    (by decide) (by simp [Fits, f3, FitsRow, Expected.cellWidth, cw3]) (by decide) (fun h => absurd h (by decide))
  exact w3_differs this.2.1

/-! ### W4: visible cursor requested outside the screen -/

def f4 : Frame := { caps := {}, refresh := true, next := [[({ g := "61" } : Cell)]],
                    last := [[({} : Cell)]], cursorNext := { row := 5, visible := true }, cursorLast := {} }

theorem w4_bad : (run cw2 t1 (renderFrame cw2 f4).2).bad ≠ none := by decide

theorem frame_displays_full_fails_cursor : ¬ frame_displays_full := by
  intro h
  have := h cw2 f4 t1 ⟨by decide, by decide, by decide⟩ (by decide) (by decide) (by decide) (by decide) (by decide) (by decide)
    (by decide) (by simp [Fits, f4, FitsRow, Expected.cellWidth, cw2]) (by decide) (fun h => absurd h (by decide))
  exact w4_bad this.1

/-! ### W5: stale hyperlink parameters on a terminal with no hyperlink open -/

def t5 : Term := { Term.init 1 1 with linkParams := "78" }
def f5 : Frame := { caps := {}, refresh := true, next := [[({ g := "61" } : Cell)]],
                    last := [[({} : Cell)]], cursorNext := {}, cursorLast := {} }

theorem w5_differs : (run cw2 t5 (renderFrame cw2 f5).2).grid ≠ Expected.expected cw2 f5.caps f5.next := by decide

theorem frame_displays_full_fails_linkParams : ¬ frame_displays_full := by
  intro h
  have := h cw2 f5 t5 ⟨by decide, by decide, by decide⟩ (by decide) (by decide) (by decide) (by decide) (by decide) (by decide)
    (by decide) (by simp [Fits, f5, FitsRow, Expected.cellWidth, cw2]) (by decide) (fun h => absurd h (by decide))
  exact w5_differs this.2.1

end VaxisModel.Witness.C01Display
