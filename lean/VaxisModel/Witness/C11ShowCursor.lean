/-
`Window.ShowCursor` does not clip: with an offset outside the window the requested cursor position
is outside the window (where a `SetCell` with the same offset is rejected), and it can be outside
the screen — the next `Render` then addresses a position outside the screen, which the reference
terminal flags as terminal-specific.  So "a visible cursor is requested inside the screen"
(`Lemmas.AppSys.CursorIn`, hypothesis of `Props.C01App.app_history_displays`) is necessary and is
the application's responsibility; `Props.C01App.showCursor_in_screen` shows it is met whenever the
offset addresses a cell of the window's clip region.
-/
import VaxisModel.Props.C01App

namespace VaxisModel.Witness.C11ShowCursor
open VaxisModel.Model.Window VaxisModel.Model.App VaxisModel.Lemmas.AppSys VaxisModel.Props.C01App

/-- 1×1 child at (1,0) of a 3×1 screen. -/
def child : Win := (Win.root 0 0 3 1).new 1 0 1 1

/-- `SetCell(1,0)` on the child is rejected (screen unchanged) … -/
theorem setCell_outside_rejected :
    (child.setCell (Screen.resize 3 1) 1 0 ⟨5, 0, 0⟩).buf = (Screen.resize 3 1).buf := by decide

/-- … but `ShowCursor(1,0)` puts the cursor on the cell right of the window, … -/
theorem showCursor_outside_window : cursorPos child 1 0 = (2, 0) := by decide

/-- … and `ShowCursor(5,0)` outside the screen: the following `Render` relies on what the terminal
    does with a CUP outside the screen. -/
theorem showCursor_outside_screen_bad :
    (sysRun exX (Sys.init 3 1) [.draw (.showCursor child 5 0 0), .render]).t.bad ≠ none := by decide

theorem cursorIn_fails : ¬ CursorIn (sysRun exX (Sys.init 3 1) [.draw (.showCursor child 5 0 0)]).v := by
  intro h
  have := h (by decide)
  revert this
  decide

end VaxisModel.Witness.C11ShowCursor
