/-
C14, round 4 — what the painting theorems exclude, on concrete trees (seeded changes C14-m5, C14-m4, C15-m6):

  * `skipBlank`: a render that does not paint the zero-value cells of a surface ("the window is cleared anyway")
    lets the parent show through a blank cell of a child — the model paints the blank cell
    (`Props.C14Bounds.own_cells_all_painted`, `later_call_covers`);
  * `noSortNeg`: a render that only sorts when some child has a positive ZIndex paints a later-added child of
    ZIndex −1 OVER an earlier one of ZIndex 0 — the model paints in non-decreasing ZIndex
    (`Props.C14Bounds.sorted_children`);
  * `render` leaves the children sorted in place; a render that sorts a copy leaves the insertion order
    (`Props.C14Body.render_body_eq_model` states the former for the executed body).
-/
import VaxisModel.Model.Surface
import VaxisModel.Model.SurfExec

namespace VaxisModel.Witness.C14Paint
open VaxisModel.Model.Window VaxisModel.Model.Surface VaxisModel.Model.SurfExec

def a : Cell := { g := 97, w := 1, st := 1 }
def b : Cell := { g := 98, w := 1, st := 1 }
def blank : Cell := default

def scr : Screen := Screen.resize 2 1

/-- a 2×1 parent "ab" with a blank 1×1 child over its first cell -/
def popup : Surface := .mk 2 1 [a, b] (.cons 0 0 0 (.mk 1 1 [blank] .nil) .nil)

/-- the calls of `render` without those whose cell is the zero value (seeded C14-m5) -/
def skipBlank (calls : List (Win × Op)) : List (Win × Op) := calls.filter fun c => c.2.cell != blank

theorem blank_child_cell_covers_parent :
    (match render popup (Win.ofScreen scr) scr with
     | .ok s' => s'.get 0 0 == some blank && s'.get 1 0 == some b
     | .error _ => false) = true := by decide

theorem skipping_blank_cells_shows_the_parent :
    ((applyPaint scr (skipBlank (popup.paint (Win.ofScreen scr)))).get 0 0 == some a) = true := by decide

/-- children added as z = 0 then z = −1, both over cell (0,0) -/
def stack : Surface := .mk 1 1 [blank] (.cons 0 0 0 (.mk 1 1 [a] .nil) (.cons 0 0 (-1) (.mk 1 1 [b] .nil) .nil))

theorem negative_z_goes_under :
    (match render stack (Win.ofScreen (Screen.resize 1 1)) (Screen.resize 1 1) with
     | .ok s' => s'.get 0 0 == some a
     | .error _ => false) = true := by decide

/-- painting the children in insertion order (what "sort only when some ZIndex > 0" does here: seeded C14-m4) shows `b` -/
theorem insertion_order_puts_it_on_top :
    ((applyPaint (Screen.resize 1 1)
        ((Kids.toL stack.kids).flatMap fun p => p.2.2.2.paint ((Win.ofScreen (Screen.resize 1 1)).new p.2.1 p.2.2.1 1 1))).get 0 0
      == some b) = true := by decide

/-- `sort.Slice` reorders the children of the rendered surface in place: −1 before 0 (what hit-testing sees afterwards) -/
theorem children_sorted_in_place :
    ((Kids.toL (Kids.sortZ stack.kids)).map (·.1) == [-1, 0] && (Kids.toL stack.kids).map (·.1) == [0, -1]) = true := by decide

end VaxisModel.Witness.C14Paint
