/-
Seeded change C16-m5 (`s.state = state` stored right after `uniseg.FirstLineSegment`, before the early
`return true` of a segment that does not fit): on the object model (`Model/WrapObj.lean`, `early = true`) the state
runs ahead of `rest` when a segment is deferred, and a segmenter whose answer depends on its state then cuts the
deferred word.  With the assignment where the source has it (`early = false`) the deferred segment leaves both
fields untouched.  `Props.C16Obj.scan_state_is_function_of_consumed_text` is the general statement the variant violates.
-/
import VaxisModel.Model.WrapObj

namespace VaxisModel.Witness.C16StateEarly
open VaxisModel.Model.Wrap VaxisModel.Model.WrapObj


def ca : Cell := { g := 1, w := 1, style := 0, sp := false, term := false, nl := false }
def cb : Cell := { g := 2, w := 1, style := 0, sp := false, term := false, nl := false }
def cs : Cell := { g := 0, w := 1, style := 0, sp := true, term := false, nl := false }

/-- first segment = the word and the blanks after it; the state counts the cells consumed; in state 5 the oracle reports a
mandatory break after one cell (an answer that belongs to the position the state describes, not to any other) -/
def wordLen : List Cell → Nat
  | [] => 0
  | c :: r => if c.sp then (1 + (r.takeWhile (·.sp)).length) else 1 + wordLen r

def posOracle (st : Nat) (rest : List Cell) : Nat × Bool × Nat :=
  if st = 5 then (1, true, st + 1)
  else (wordLen rest, decide (rest.length ≤ wordLen rest), st + wordLen rest)

def aabb : List Cell := [ca, ca, cs, cb, cb]

theorem deferred_segment_keeps_state :
    (match scanObj false posOracle 0 3 (newObj 0 aabb) with
     | .line s => s.rest == [cb, cb] && s.state == 3 && s.token == [ca, ca, cs]
     | _ => false) = true := by decide

theorem early_store_runs_ahead :
    (match scanObj true posOracle 0 3 (newObj 0 aabb) with
     | .line s => s.rest == [cb, cb] && s.state == 5
     | _ => false) = true := by decide

theorem early_store_changes_the_lines :
    ((runObj false posOracle 0 3 6 (newObj 0 aabb)).map (·.1) == some [[ca, ca, cs], [cb, cb]] &&
     (runObj true posOracle 0 3 6 (newObj 0 aabb)).map (·.1) == some [[ca, ca, cs], [cb], [cb]]) = true := by decide

/-- the pair the early store leaves behind, (`bb`, 5), is not on the segmenter's own path from the start of the text:
that path is (`aa bb`, 0), (`bb`, 3), (``, 5) -/
theorem early_pair_not_on_the_chain :
    ((List.range 4).all fun k => !(chain posOracle k aabb 0 == ([cb, cb], 5))) = true := by decide

end VaxisModel.Witness.C16StateEarly
