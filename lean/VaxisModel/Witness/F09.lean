import VaxisModel.Model.Input

/-! F09 (fixed in /repo 41b077f): with the guard written `len(I) != 1 && I[0] != '<'`, a `CSI M`
without any intermediate indexes an empty slice.  The model keeps the old operator reachable
through `mouseGuardWith false`, so the witness stays checked; `Gen.Caps.mouseGuardIsOr` says which
operator the current source has. -/
namespace VaxisModel.Witness.F09
open VaxisModel.Model.Input

theorem old_guard_panics : mouseGuardWith false [] = .error .indexOutOfRange := by rfl

/-- A two-character intermediate starting with `<` slipped through the old guard. -/
theorem old_guard_accepts_junk : mouseGuardWith false [ch '<', ch '$'] = .ok false := by rfl

theorem new_guard_rejects : mouseGuardWith true [] = .ok true ∧ mouseGuardWith true [ch '<', ch '$'] = .ok true := by
  constructor <;> rfl

end VaxisModel.Witness.F09
