import VaxisModel.Model.InputLoop

/-! F10 / F11 (fixed in /repo 79c8244, e2213e6): with the reply sends written as bare sends
(`Kinds.original`), a second unsolicited `CSI 8;r;c t` (resp. OSC 4/10/11 reply) finds the
capacity-1 channel full and no internal move can ever free it. -/
namespace VaxisModel.Witness.F10
open VaxisModel.Model.Input VaxisModel.Model.InputLoop

def P : Params := { qcap := 4, kinds := Kinds.original, b64 := fun _ => none }

def size8 : Seq := .csi [] [[8], [24], [80]] (ch 't')
def osc10 : Seq := .osc (str "10;rgb:1/2/3")

def s0 : Sys := { vs := { caps := { reportSizeChars := true, osc10 := true } } }

/-- The run: two size reports; the first token is stored, the second send is pending. -/
def stuckSize : Option Sys := run P s0 [.input size8, .step, .input size8]

theorem F10_stuck_state :
    (match stuckSize with
     | some s => s.pend == [.sendSizeDone] && s.sizeDone == 1 && (blockedOn P s == some "chSizeDone")
     | none => false) = true := by decide

/-- In a state blocked on `chSizeDone`, every internal label is either disabled or leaves the
pending send and the channel untouched: the goroutine never returns to its `select`. -/
theorem F10_wedged (s : Sys) (hp : s.pend = [.sendSizeDone]) (hc : s.sizeDone = 1) :
    ∀ ls s', (∀ l ∈ ls, l.internal = true) → run P s ls = some s' → s'.pend = [.sendSizeDone] := by
  intro ls
  induction ls generalizing s with
  | nil => intro s' _ h; simp [run] at h; subst h; exact hp
  | cons l t ih =>
    intro s' hi h
    have hl : l.internal = true := hi l (by simp)
    have ht : ∀ l ∈ t, l.internal = true := fun l hl => hi l (by simp [hl])
    cases l <;> simp [Label.internal] at hl
    · -- step: blocked
      simp [run, next, hp, stepEffect, send1, hc, P, Kinds.original] at h
    · -- clipTimeout: not at a clipboard send
      simp [run, next, hp] at h
    · -- consume: changes only the queue
      simp only [run, next] at h
      split at h
      · rename_i s1 heq
        split at heq
        · simp at heq
        · simp at heq; subst heq
          exact ih _ (by simpa using hp) (by simpa using hc) s' ht h
      · simp at h

theorem F11_stuck_state :
    (match run P s0 [.input osc10, .step, .step, .input osc10] with
     | some s => (blockedOn P s == some "chFg") && s.fg.length == 1
     | none => false) = true := by decide

end VaxisModel.Witness.F10
