/-
Witnesses for the recorded C02 findings: on these inputs the model (which follows the code) and
the Spec machine disagree.  The same inputs are in corpus/C02/ and are replayed on the real
parser by the harness on every run.
-/
import VaxisModel.Model.ParserIO
import VaxisModel.Spec.VT500
import VaxisModel.Props.C02Text
import VaxisModel.Props.C02Refine

namespace VaxisModel.Witness.F102
open VaxisModel.Model.Parser VaxisModel.Model.ParserIO

/-- F102: `ESC ] ESC \` — the ST of an empty OSC is delivered as `ESC \`; the Spec delivers only the OSC. -/
theorem F102_empty_osc :
    (run PState.init [0x1B, 0x5D, 0x1B, 0x5C]).2 = [.osc [], .esc [] 0x5C] ∧
    (Spec.VT500.run [0x1B, 0x5D, 0x1B, 0x5C]).1 = [.osc []] := by decide

/-- F102: `ESC P 0 + r ESC \` (XTGETTCAP "not found" reply) — DCS then a spurious `ESC \`. -/
theorem F102_empty_dcs :
    (run PState.init [0x1B, 0x50, 0x30, 0x2B, 0x72, 0x1B, 0x5C]).2 = [.dcs 0x72 [0x2B] [0] [], .esc [] 0x5C] ∧
    (Spec.VT500.run [0x1B, 0x50, 0x30, 0x2B, 0x72, 0x1B, 0x5C]).1 = [.dcs 0x72 [0x2B] [0] []] := by decide

/-- F102c: `ESC ] 0 ESC LF \` — a C0 between the ESC and the `\` drops the suppression. -/
theorem F102c_c0_in_st :
    (run PState.init [0x1B, 0x5D, 0x30, 0x1B, 0x0A, 0x5C]).2 = [.osc [0x30], .c0 0x0A, .esc [] 0x5C] ∧
    (Spec.VT500.run [0x1B, 0x5D, 0x30, 0x1B, 0x0A, 0x5C]).1 = [.osc [0x30], .c0 0x0A] := by decide

/-- F102d: bytes `D8 80 FF` in one read, uniseg joining the rune after the Prepend character
    U+0600 to it: the invalid byte FF is delivered as U+FFFD; the Spec wants the raw byte. -/
theorem F102d_invalid_after_prepend :
    runChunks handTable (fun p => if p = 0 then 2 else 1) [[0xD8, 0x80, 0xFF]] =
      [.print [0x600, 0xFFFD], .seq .eof] ∧
    Spec.VT500.decode [0xD8, 0x80, 0xFF] = [0x600, 0xFF] := by decide


open VaxisModel.Model.ParserUtf8 VaxisModel.Props.C02Text in
/-- F102d at the level of the round-2 statements: without the hypothesis on the oracle, text is
    **not** conserved — `D8 80 FF` in one read with an oracle that joins the rune after U+0600 to it
    delivers U+FFFD where the stream has the raw byte FF. -/
theorem F102d_text_altered : ¬ text_conserved_full := by
  intro h
  have := h (fun p => if p = 0 then 2 else 1) [[0xD8, 0x80, 0xFF]] (by decide)
  revert this
  decide

open VaxisModel.Model.ParserUtf8 VaxisModel.Props.C02Text in
/-- … and the result **does** depend on the split: the same bytes as `D8 80 | FF` deliver the raw byte. -/
theorem F102d_split_dependent : ¬ chunk_independent_full := by
  intro h
  have := h (fun p => if p = 0 then 2 else 1) [[0xD8, 0x80, 0xFF]] [[0xD8, 0x80], [0xFF]] (by decide)
  revert this
  decide

/-- That oracle is exactly what the hypothesis of the `…_partial` theorems excludes. -/
theorem F102d_oracle_not_respectful :
    ¬ VaxisModel.Model.ParserUtf8.Respects (fun p => if p = 0 then 2 else 1) 0
        (VaxisModel.Model.ParserUtf8.units [0xD8, 0x80, 0xFF]) := by decide


open VaxisModel.Props.C02Refine in
/-- The whole-stream refinement against the Spec proper, without exclusions, is false of the code:
    `ESC ] ESC \` (F102). -/
theorem F102_refinement_full_fails : ¬ model_refines_spec_full := by
  intro h
  have := h (fun _ => 1) [[0x1B, 0x5D, 0x1B, 0x5C]]
  revert this
  decide +kernel

end VaxisModel.Witness.F102
