/-
Witnesses for the recorded C02 findings: on these inputs the model (which follows the code) and
the Spec machine disagree.  The same inputs are in corpus/C02/ and are replayed on the real
parser by the harness on every run.
-/
import VaxisModel.Model.ParserIO
import VaxisModel.Spec.VT500
import VaxisModel.Props.C02Text
import VaxisModel.Props.C02Refine

namespace VaxisModel.Witness.F102
open VaxisModel.Model.Parser VaxisModel.Model.ParserIO

/-- F102: `ESC ] ESC \` — the ST of an empty OSC is delivered as `ESC \`; the Spec delivers only the OSC. -/
theorem F102_empty_osc :
    (run PState.init [0x1B, 0x5D, 0x1B, 0x5C]).2 = [.osc [], .esc [] 0x5C] ∧
    (Spec.VT500.run [0x1B, 0x5D, 0x1B, 0x5C]).1 = [.osc []] := by decide

/-- F102: `ESC P 0 + r ESC \` (XTGETTCAP "not found" reply) — DCS then a spurious `ESC \`. -/
theorem F102_empty_dcs :
    (run PState.init [0x1B, 0x50, 0x30, 0x2B, 0x72, 0x1B, 0x5C]).2 = [.dcs 0x72 [0x2B] [0] [], .esc [] 0x5C] ∧
    (Spec.VT500.run [0x1B, 0x50, 0x30, 0x2B, 0x72, 0x1B, 0x5C]).1 = [.dcs 0x72 [0x2B] [0] []] := by decide

/-- F102c **repaired**: `ESC ] 0 ESC LF \` — a C0 executed between the ESC and the `\` no longer
    drops the suppression: model (= the code now) and Spec agree; the witness stays in corpus/C02. -/
theorem F102c_c0_in_st_fixed :
    (run PState.init [0x1B, 0x5D, 0x30, 0x1B, 0x0A, 0x5C]).2 = [.osc [0x30], .c0 0x0A] ∧
    (Spec.VT500.run [0x1B, 0x5D, 0x30, 0x1B, 0x0A, 0x5C]).1 = [.osc [0x30], .c0 0x0A] := by decide

/-- … and the suppression is still dropped by everything that leaves `escape`: `ESC ] 0 ESC A ESC \`
    delivers the second `ESC \` (Alt+\), as the Spec does. -/
theorem F102c_other_sequences_still_clear :
    (run PState.init [0x1B, 0x5D, 0x30, 0x1B, 0x41, 0x1B, 0x5C]).2 = [.osc [0x30], .esc [] 0x41, .esc [] 0x5C] ∧
    (Spec.VT500.run [0x1B, 0x5D, 0x30, 0x1B, 0x41, 0x1B, 0x5C]).1 = [.osc [0x30], .esc [] 0x41, .esc [] 0x5C] := by
  decide

/-- F102d **repaired**: bytes `D8 80 FF` in one read, uniseg joining the rune after the Prepend
    character U+0600 to it: the look-ahead stops in front of the invalid byte FF, `readRune`
    delivers it raw — what the Spec wants. -/
theorem F102d_invalid_after_prepend_fixed :
    runChunks handTable (fun p => if p = 0 then 2 else 1) [[0xD8, 0x80, 0xFF]] =
      [.print [0x600], .print [0xFF], .seq .eof] ∧
    Spec.VT500.decode [0xD8, 0x80, 0xFF] = [0x600, 0xFF] := by decide

open VaxisModel.Model.ParserUtf8 in
/-- … and the result no longer depends on the split: `D8 80 | FF` delivers the same. -/
theorem F102d_split_independent :
    flat (runChunks handTable (fun p => if p = 0 then 2 else 1) [[0xD8, 0x80, 0xFF]]) =
    flat (runChunks handTable (fun p => if p = 0 then 2 else 1) [[0xD8, 0x80], [0xFF]]) := by decide

open VaxisModel.Model.ParserUtf8 VaxisModel.Props.C02Text in
/-- Why `chunk_independent` keeps a hypothesis on the oracle (a parameter standing for uniseg): an
    "oracle" that joins an ESC to the letter before it makes the look-ahead swallow the ESC into the
    Print when both arrive in one read.  uniseg never does that (GB4/GB5; counter `oracle-joins-c0`). -/
theorem chunk_independent_needs_c0_oracle : ¬ chunk_independent_full := by
  intro h
  have := h (fun p => if p = 0 then 2 else 1) [[0x61, 0x1B, 0x5B, 0x6D]] [[0x61], [0x1B, 0x5B, 0x6D]] (by decide)
  revert this
  decide

open VaxisModel.Props.C02Refine in
/-- The whole-stream refinement against the Spec proper, without exclusions, is false of the code:
    `ESC ] ESC \` (F102). -/
theorem F102_refinement_full_fails : ¬ model_refines_spec_full := by
  intro h
  have := h (fun _ => 1) [[0x1B, 0x5D, 0x1B, 0x5C]]
  revert this
  decide +kernel

end VaxisModel.Witness.F102
