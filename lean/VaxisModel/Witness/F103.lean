/-!
# F103 — the cursor-position request flag was tested and cleared in two steps

A small self-contained LTS of the hand-off, in two variants of `handleSequence`'s `case 'R'`:
* **split** (the source before /repo 70f2f6f): `if atomicLoad(&flag) { atomicStore(&flag, false); …send… }`
  — between the load and the store `CursorPosition` can time out and be called again, and the store
  then withdraws the *new* request;
* **atomic** (the current source, `Props.C03.cpr_take_atomic`): `if CompareAndSwap(&flag, 1, 0) { …send… }`.

The terminal answers every query exactly once.  A report that arrives after its query has timed
out is a key press by design (DSR 6 has no query ids): `late` counts the time-outs that fire while a
report is still outstanding.  With two calls of `CursorPosition` the split variant takes a report
for a key press although no time-out was late (`keys = 1`, `late = 0`); in the atomic variant
`keys ≤ late` in every reachable state (the set of states closed under all transitions).
The input LTS (`Model/InputLoop.lean`) folds "flag seen and lowered" into its `.input` label, i.e. it
is the atomic variant; the schedule is replayed on the real code by the `race order=recall` cases.
-/
namespace VaxisModel.Witness.F103

inductive PC | idle | seen | sending
  deriving DecidableEq, Repr

structure S where
  flag : Bool := false
  pc : PC := .idle
  waiting : Bool := false
  full : Bool := false
  /-- calls of `CursorPosition` made so far (budget 2) -/
  calls : Nat := 0
  /-- queries written and not yet answered by the terminal -/
  outstanding : Nat := 0
  /-- reports taken for key presses -/
  keys : Nat := 0
  /-- time-outs that fired while a report was still outstanding (its report will be late) -/
  late : Nat := 0
  deriving DecidableEq, Repr

inductive L | call | timeout | report | store | send | recv
  deriving DecidableEq, Repr

def L.all : List L := [.call, .timeout, .report, .store, .send, .recv]

/-- One transition; `none` = not enabled. `atomic` selects the variant of the `case 'R'` arm. -/
def next (atomic : Bool) (s : S) : L → Option S
  | .call => if !s.waiting && s.calls < 2 then
      some { s with waiting := true, full := false, flag := true, calls := s.calls + 1, outstanding := s.outstanding + 1 } else none
  | .timeout => if s.waiting then
      some { s with waiting := false, flag := false, late := if s.outstanding > 0 then s.late + 1 else s.late } else none
  | .report =>
      if s.pc == .idle && s.outstanding > 0 then
        if s.flag then
          (if atomic then some { s with flag := false, pc := .sending, outstanding := s.outstanding - 1 }
           else some { s with pc := .seen, outstanding := s.outstanding - 1 })
        else some { s with keys := s.keys + 1, outstanding := s.outstanding - 1 }
      else none
  | .store => if s.pc == .seen then some { s with flag := false, pc := .sending } else none
  | .send => if s.pc == .sending then some { s with full := true, pc := .idle } else none
  | .recv => if s.waiting && s.full then some { s with waiting := false, full := false } else none

def run (atomic : Bool) : S → List L → Option S
  | s, [] => some s
  | s, l :: ls => match next atomic s l with
    | some s' => run atomic s' ls
    | none => none

/-- The F103 schedule: the first call times out after the goroutine has *seen* the flag, a second
call raises it again, the goroutine's store withdraws it, the second report is a key press. -/
theorem split_takes_reply_for_key :
    (match run false {} [.call, .report, .timeout, .call, .store, .send, .recv, .report] with
     | some s => s.keys == 1 && s.late == 0 && s.outstanding == 0
     | none => false) = true := by decide

/-- All successors of a set of states. -/
def succs (atomic : Bool) (r : List S) : List S :=
  r.flatMap fun s => L.all.filterMap (next atomic s)

def addNew (r : List S) : List S → List S
  | [] => r
  | x :: xs => if r.contains x then addNew r xs else addNew (r ++ [x]) xs

def close (atomic : Bool) : Nat → List S → List S
  | 0, r => r
  | n + 1, r => close atomic n (addNew r (succs atomic r))

/-- States of the atomic variant reachable with at most two calls (fixpoint after 14 rounds). -/
def reachAtomic : List S := close true 20 [{}]

theorem reachAtomic_closed :
    reachAtomic.all (fun s => L.all.all fun l => match next true s l with | some s' => reachAtomic.contains s' | none => true) = true := by
  decide +kernel

theorem reachAtomic_no_key : reachAtomic.all (fun s => decide (s.keys ≤ s.late)) = true := by decide +kernel

theorem mem_all (l : L) : l ∈ L.all := by cases l <;> simp [L.all]

/-- **Atomic variant**: whatever the schedule (two calls, the terminal answering each query once),
reports are taken for key presses only as often as a time-out fired with its report outstanding. -/
theorem atomic_never_key : ∀ (ls : List L) (s s' : S), reachAtomic.contains s = true → run true s ls = some s' →
    reachAtomic.contains s' = true ∧ s'.keys ≤ s'.late
  | [], s, s', hs, hr => by
      simp [run] at hr; subst hr
      have := List.all_eq_true.mp reachAtomic_no_key s (by simpa using hs)
      exact ⟨hs, by simpa using this⟩
  | l :: ls, s, s', hs, hr => by
      simp only [run] at hr
      cases hn : next true s l with
      | none => simp [hn] at hr
      | some s1 =>
        simp only [hn] at hr
        have h1 := List.all_eq_true.mp reachAtomic_closed s (by simpa using hs)
        have h2 := List.all_eq_true.mp h1 l (mem_all l)
        simp only [hn] at h2
        exact atomic_never_key ls s1 s' h2 hr

theorem atomic_never_key_from_init (ls : List L) (s' : S) (hr : run true {} ls = some s') : s'.keys ≤ s'.late :=
  (atomic_never_key ls {} s' (by decide +kernel) hr).2

end VaxisModel.Witness.F103
