import VaxisModel.Lemmas.EmuWitnessLib
/-! F105a (fixed by d31fad1): with the cursor in the pending-wrap column (column = width) EL 1 and REP indexed one past the line. Corpus: corpus/C05/F105a-*.ops. -/
namespace VaxisModel.Witness.F105a
open VaxisModel.Model.Emu VaxisModel.Lemmas.EmuWitness

def before : Fixes := { Fixes.current with f105a := false }
theorem el1_in_pending_wrap_panics : panics (play before 2 2 [pr [97], pr [98], csi1 75 [1]]) = true := by decide +kernel
theorem rep_in_pending_wrap_panics : panics (play before 2 2 [pr [97], pr [98], csi1 98 [1]]) = true := by decide +kernel
theorem now_fine : fine (play Fixes.current 2 2 [pr [97], pr [98], csi1 75 [1], csi1 98 [1]]) 2 2 = true := by decide +kernel
end VaxisModel.Witness.F105a
