import VaxisModel.Lemmas.EmuWitnessLib
/-! F105b (fixed by d4f805b): HT/CHT moved the cursor to the next tab stop even beyond the right margin (tab stops exist up to column 344); EL 1 there panicked. Corpus: corpus/C05/F105b-ht-past-margin.ops. -/
namespace VaxisModel.Witness.F105b
open VaxisModel.Model.Emu VaxisModel.Lemmas.EmuWitness

def before : Fixes := { Fixes.current with f105b := false }
theorem ht_leaves_screen : breaksInv (play before 4 2 [.c0 9]) 2 4 = true := by decide +kernel
theorem then_el1_panics : panics (play { before with f105a := false } 4 2 [.c0 9, csi1 75 [1]]) = true := by decide +kernel
theorem now_fine : fine (play Fixes.current 4 2 [.c0 9, csi1 75 [1]]) 2 4 = true := by decide +kernel
end VaxisModel.Witness.F105b
