import VaxisModel.Lemmas.EmuWitnessLib
/-! F105c (fixed by 6499aba): a width-2 glyph on a 1-column terminal left the cursor at column 2 > width; ECH there panicked. Corpus: corpus/C05/F105c-wide-on-one-column.ops. -/
namespace VaxisModel.Witness.F105c
open VaxisModel.Model.Emu VaxisModel.Lemmas.EmuWitness

def before : Fixes := { Fixes.current with f105c := false }
theorem wide_on_one_column_leaves_screen : breaksInv (play before 1 2 [pr [228, 184, 150] 2]) 2 1 = true := by decide +kernel
theorem then_ech_panics : panics (play before 1 2 [pr [228, 184, 150] 2, csi1 88 [1]]) = true := by decide +kernel
theorem now_fine : fine (play Fixes.current 1 2 [pr [228, 184, 150] 2, csi1 88 [1]]) 2 1 = true := by decide +kernel
end VaxisModel.Witness.F105c
