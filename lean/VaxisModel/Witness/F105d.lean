import VaxisModel.Lemmas.EmuWitnessLib
/-! F105d (fixed by eaf913d): OSC 52 with a valid base64 payload called ClipboardPush on a nil *Vaxis when no Draw had happened yet. Corpus: corpus/C05/F105d-osc52-before-draw.ops. -/
namespace VaxisModel.Witness.F105d
open VaxisModel.Model.Emu VaxisModel.Lemmas.EmuWitness

def before : Fixes := { Fixes.current with f105d := false }
def osc52 : EOp := .osc [53, 50, 59, 99, 59, 97, 71, 107, 61] { b64ok := true }
theorem osc52_before_draw_panics : panics (play before 4 3 [osc52]) = true := by decide +kernel
theorem now_fine : fine (play Fixes.current 4 3 [osc52]) 3 4 = true := by decide +kernel
end VaxisModel.Witness.F105d
