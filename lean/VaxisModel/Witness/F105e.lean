import VaxisModel.Lemmas.EmuWitnessLib
/-! F105e (fixed by 7b2007f): backspace at the home position while a top margin > 0 is set reverse-wrapped to row −1. Corpus: corpus/C05/F105e-bs-above-top-margin.ops. -/
namespace VaxisModel.Witness.F105e
open VaxisModel.Model.Emu VaxisModel.Lemmas.EmuWitness

def before : Fixes := { Fixes.current with f105e := false }
theorem bs_leaves_screen : breaksInv (play before 4 3 [csi1 114 [2, 3], .c0 8]) 3 4 = true := by decide +kernel
theorem then_print_panics : panics (play before 4 3 [csi1 114 [2, 3], .c0 8, pr [97]]) = true := by decide +kernel
theorem now_fine : fine (play Fixes.current 4 3 [csi1 114 [2, 3], .c0 8, pr [97]]) 3 4 = true := by decide +kernel
end VaxisModel.Witness.F105e
