import VaxisModel.Lemmas.EmuWitnessLib
/-! F105f (fixed by 99781cb): RI on row 0 above the top margin moved to row −1. Corpus: corpus/C05/F105f-ri-above-top-margin.ops. -/
namespace VaxisModel.Witness.F105f
open VaxisModel.Model.Emu VaxisModel.Lemmas.EmuWitness

def before : Fixes := { Fixes.current with f105f := false }
theorem ri_leaves_screen : breaksInv (play before 4 3 [csi1 114 [2, 3], .esc [77]]) 3 4 = true := by decide +kernel
theorem then_print_panics : panics (play before 4 3 [csi1 114 [2, 3], .esc [77], pr [97]]) = true := by decide +kernel
theorem now_fine : fine (play Fixes.current 4 3 [csi1 114 [2, 3], .esc [77], pr [97]]) 3 4 = true := by decide +kernel
end VaxisModel.Witness.F105f
