import VaxisModel.Lemmas.EmuWitnessLib
import VaxisModel.Model.EmuDraw
/-! F105g (fixed by f1d14bf): in the pending-wrap state (cursor column = width, here a 2×2 terminal
after printing "ab") Draw passed `cursor.col` to `win.ShowCursor`, i.e. the column just right of a
window of the emulator's size — `Window.ShowCursor` does not clip, so the host cursor was shown
outside the widget. Now the column is `min(cursor.col, margin.right)`.
Corpus: corpus/C05Draw/F105g-cursor-pending-wrap.ops. -/
namespace VaxisModel.Witness.F105g
open VaxisModel.Model.Emu VaxisModel.Model.EmuDraw VaxisModel.Lemmas.EmuWitness

/-- 2×2 terminal after printing "ab" on row 0. -/
def state : M Emu := play Fixes.current 2 2 [pr [97], pr [98]]

/-- The cursor that `Draw` shows for a focused terminal in a `winW × winH` window, observed. -/
def shown (fixCursor : Bool) (winW winH : Int) : Option (Int × Int) :=
  match state with
  | .ok e =>
    match draw fixCursor Fixes.current e winW winH true with
    | .ok r => r.2.2
    | .error _ => none
  | .error _ => none

/-- The state is the pending-wrap state and satisfies the state clause of C05. -/
theorem state_pending_wrap :
    (match state with | .ok e => e.cur.col == 2 && e.lastCol && invB e 2 2 | .error _ => false) = true := by
  decide +kernel

/-- Before f1d14bf: the cursor is shown at column 2 = the window's width, outside the window. -/
theorem cursor_outside_before : (shown false 2 2 == some (2, 0)) = true := by decide +kernel

/-- The clause "the shown cursor is inside the window" is false of the code before the fix. -/
theorem draw_cursor_clipped_fails_before :
    ¬ (∀ p, shown false 2 2 = some p → 0 ≤ p.1 ∧ p.1 < 2 ∧ 0 ≤ p.2 ∧ p.2 < 2) := by
  intro h
  have h2 : shown false 2 2 = some (2, 0) := by decide +kernel
  have := (h (2, 0) h2).2.1
  exact absurd this (by decide)

/-- Now: column 1, inside. -/
theorem cursor_inside_now : (shown true 2 2 == some (1, 0)) = true := by decide +kernel

/-- Through a window at (5,3) of a 20×10 screen: host cursor at column 7 = first column right of
    the window `[5,7)` before the fix, column 6 now. -/
theorem host_cursor_before_after :
    ((shown false 2 2).map (fun p => showCursorChain [Win.new (Win.root 20 10) 5 3 2 2, Win.root 20 10] p.1 p.2) == some (7, 3)
     && (shown true 2 2).map (fun p => showCursorChain [Win.new (Win.root 20 10) 5 3 2 2, Win.root 20 10] p.1 p.2) == some (6, 3)) = true := by
  decide +kernel

end VaxisModel.Witness.F105g
