import VaxisModel.Lemmas.EmuWitnessLib
import VaxisModel.Model.EmuDraw
/-! F105h (fixed by fcc8f92): Draw into a window without area (Window.New yields width/height ≤ 0 at
a parent's edge) resized the terminal to 0 columns / lines; the reflow of existing content then
indexed an empty row and panicked — in the host application's goroutine, not under the PTY
goroutine's recover. Corpus: corpus/C05Draw/F105h-window-without-area.ops. -/
namespace VaxisModel.Witness.F105h
open VaxisModel.Model.Emu VaxisModel.Model.EmuDraw VaxisModel.Lemmas.EmuWitness

/-- a 3×3 terminal with "a" on line 1 and "b" on line 2 -/
def st : M Emu := play Fixes.current 3 3 [pr [97], .c0 10, pr [98]]

def drawPanics (guard : Bool) (w h : Int) : Bool :=
  match st with
  | .ok e => (match drawG guard true Fixes.current e w h true with | .error .oob => true | _ => false)
  | _ => false

theorem zero_width_panicked_before : drawPanics false 0 2 = true := by decide +kernel
theorem zero_height_panicked_before : drawPanics false 2 0 = true := by decide +kernel
theorem fine_now : drawPanics true 0 2 = false ∧ drawPanics true 2 0 = false ∧ drawPanics true (-1) 2 = false := by decide +kernel
end VaxisModel.Witness.F105h
