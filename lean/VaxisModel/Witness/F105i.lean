import VaxisModel.Model.EmuDcs
import VaxisModel.Props.C05Payload
/-! F105i (fixed by 107607c): a sixel DCS went to the external decoder (go-sixel) unchecked. With
raster attributes `"1;1;4294967296;4294967296` the decoder panics in image.NewNRGBA (replayed on the
real code by corpus/C05/F105i-sixel-huge-raster.ops: `panic` with the guard removed); with
`"1;1;99999;99999` it allocates 40 GB and the Go runtime kills the HOST process (`fatal error:
runtime: out of memory`, not recoverable — found by fuzzing the library, not replayable inside the
harness); a repeat count `!99999999999~` spins for hours holding `vt.mu`.
The decoder is a parameter of the model: its crash on this payload is the observed fact. -/
namespace VaxisModel.Witness.F105i
open VaxisModel.Model.Emu VaxisModel.Props.C05Payload

/-- `"1;1;4294967296;4294967296` -/
def rasterHuge : List Nat := [34, 49, 59, 49, 59, 52, 50, 57, 52, 57, 54, 55, 50, 57, 54, 59, 52, 50, 57, 52, 57, 54, 55, 50, 57, 54]
def payload : DcsInfo := { final := 113, data := rasterHuge, dec := .crash }

def isError (r : M Emu) : Bool := match r with | .error _ => true | .ok _ => false

/-- without the size guard the crash of the decoder is a crash of the terminal -/
theorem unguarded_dcs_crashes : isError (dcsF false Emu.init payload) = true := by decide
/-- so the full statement (no assumption on the decoder) fails for the code before the fix -/
theorem dcs_safe_full_fails_before : ¬ (∀ (e : Emu) (d : DcsInfo), ∃ e', dcsF false e d = .ok e') := by
  intro h
  obtain ⟨e', he⟩ := h Emu.init payload
  have : isError (dcsF false Emu.init payload) = true := unguarded_dcs_crashes
  rw [he] at this
  simp [isError] at this
/-- the guard refuses this payload: the decoder is never called -/
theorem refused_now : sixelTooLarge rasterHuge = true := by decide
theorem now_fine : isError (dcs Emu.init payload) = false := by decide
/-- other payloads of the same kind -/
theorem refused_raster_99999 : sixelTooLarge [34, 49, 59, 49, 59, 57, 57, 57, 57, 57, 59, 57, 57, 57, 57, 57] = true := by decide
theorem refused_repeat_huge : sixelTooLarge [33, 57, 57, 57, 57, 57, 57, 57, 57, 57, 57, 57, 126] = true := by decide
/-- a small valid image passes: `"1;1;4;6#0;2;0;0;0#1~~~~` -/
theorem small_image_passes :
    sixelTooLarge [34, 49, 59, 49, 59, 52, 59, 54, 35, 48, 59, 50, 59, 48, 59, 48, 59, 48, 35, 49, 126, 126, 126, 126] = false := by decide
/-- exactly at the limit: `!4096~` passes, `!4097~` and `!4096~~` do not -/
theorem limit_exact : sixelTooLarge [33, 52, 48, 57, 54, 126] = false ∧ sixelTooLarge [33, 52, 48, 57, 55, 126] = true ∧
    sixelTooLarge [33, 52, 48, 57, 54, 126, 126] = true := by decide
end VaxisModel.Witness.F105i
