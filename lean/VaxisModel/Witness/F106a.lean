import VaxisModel.Lemmas.EmuWitnessLib
/-! F106a (C06, fixed by 3986f41): VPA (absolute positioning) in the pending-wrap state left the cursor in the pending-wrap column, so the next glyph still wrapped. Corpus: corpus/C06/F106a-vpa-pending-wrap.ops. -/
namespace VaxisModel.Witness.F106a
open VaxisModel.Model.Emu VaxisModel.Lemmas.EmuWitness

def before : Fixes := { Fixes.current with f106a := false }
def ops : List EOp := [pr [97], pr [98], csi1 100 [1], pr [99]]
theorem vpa_keeps_pending_wrap : disagrees before 2 2 ops = true := by decide +kernel
theorem now_agrees : agrees Fixes.current 2 2 ops = true := by decide +kernel
end VaxisModel.Witness.F106a
