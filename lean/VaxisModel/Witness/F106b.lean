import VaxisModel.Lemmas.EmuWitnessLib
/-! F106b (C06, fixed by c201973): CUD from below the bottom margin moved the cursor UP to the margin. Corpus: corpus/C06/F106b-cud-below-margin.ops. -/
namespace VaxisModel.Witness.F106b
open VaxisModel.Model.Emu VaxisModel.Lemmas.EmuWitness

def before : Fixes := { Fixes.current with f106b := false }
def ops : List EOp := [csi1 114 [1, 2], csi1 72 [3, 1], csi1 66]
theorem cud_below_margin_moves_up : disagrees before 2 3 ops = true := by decide +kernel
theorem now_agrees : agrees Fixes.current 2 3 ops = true := by decide +kernel
end VaxisModel.Witness.F106b
