import VaxisModel.Lemmas.EmuWitnessLib
/-! F106c (C06, fixed by 457f79a): the alternate screen was cleared only when it was left (with the
background colour of that moment), so entering it again showed that stale background; the reference
(and xterm) show a screen cleared on entry. Corpus: corpus/C06/F106c-alt-screen-stale-background.ops. -/
namespace VaxisModel.Witness.F106c
open VaxisModel.Model.Emu VaxisModel.Lemmas.EmuWitness

def before : Fixes := { Fixes.current with f106c := false }
def altOn : EOp := .csi [63, 104] [(1049, [])]
def altOff : EOp := .csi [63, 108] [(1049, [])]
def ops : List EOp := [csi1 109 [42], altOn, altOff, csi1 109 [0], altOn]
theorem stale_background : disagrees before 2 2 ops = true := by decide +kernel
theorem now_agrees : agrees Fixes.current 2 2 ops = true := by decide +kernel
end VaxisModel.Witness.F106c
