import VaxisModel.Lemmas.EmuWitnessLib
/-! F106d (C06, fixed by 2f8eb92): cup() and decstbm() switch on `len(params)` and had cases 0, 1, 2 only, so CUP / HVP / DECSTBM
with a third parameter were ignored altogether; a VT / xterm ignores only the parameters after the second.
Corpus: corpus/C06/F106d-cup-extra-params.ops, F106d-decstbm-extra-params.ops. -/
namespace VaxisModel.Witness.F106d
open VaxisModel.Model.Emu VaxisModel.Lemmas.EmuWitness

def before : Fixes := { Fixes.current with f106d := false }
/-- 4×3: `CSI 2;2;9 H`, print "a": the glyph belongs at row 2, column 2 — it was written at the home position. -/
def ops : List EOp := [csi1 72 [2, 2, 9], pr [97]]
/-- 4×3: "a", `CSI 1;2;7 r`, LF, LF: the region of two lines scrolls the "a" away — without margins nothing scrolled. -/
def ops2 : List EOp := [pr [97], csi1 114 [1, 2, 7], .c0 10, .c0 10]
theorem cup_third_parameter_ignored_the_move : disagreesX before 4 3 ops = true := by decide +kernel
theorem decstbm_third_parameter_ignored_the_margins : disagreesX before 4 3 ops2 = true := by decide +kernel
theorem now_agrees : agreesX Fixes.current 4 3 ops = true ∧ agreesX Fixes.current 4 3 ops2 = true := by decide +kernel
end VaxisModel.Witness.F106d
