import VaxisModel.Lemmas.EmuWitnessLib
/-! F106e (C06, fixed by c03d8ee): ris() (ESC c) reset the bottom margin, the cursor position, the modes, the character sets and the
tab stops, but NOT the top margin of the scroll region, the pen or the saved cursors. Corpus: corpus/C06/F106e-ris-leftovers.ops. -/
namespace VaxisModel.Witness.F106e
open VaxisModel.Model.Emu VaxisModel.Lemmas.EmuWitness

def before : Fixes := { Fixes.current with f106e := false }
/-- 4×4: `SGR 41`, `CSI 2;3 r`, `ESC c`, "a": the glyph must be in the default style — it was red. -/
def ops : List EOp := [csi1 109 [41], csi1 114 [2, 3], .esc [99], pr [97]]
/-- 4×4: `CSI 2;3 r`, `ESC c`, "a", four LF: the whole screen scrolls and the "a" is gone — with the stale top margin only
    lines 2..4 scrolled. -/
def ops2 : List EOp := [csi1 114 [2, 3], .esc [99], pr [97], .c0 10, .c0 10, .c0 10, .c0 10]
theorem ris_kept_the_pen : disagreesX before 4 4 ops = true := by decide +kernel
theorem ris_kept_the_top_margin : disagreesX before 4 4 ops2 = true := by decide +kernel
theorem now_agrees : agreesX Fixes.current 4 4 ops = true ∧ agreesX Fixes.current 4 4 ops2 = true := by decide +kernel
end VaxisModel.Witness.F106e
