import VaxisModel.Lemmas.EmuWitnessLib
/-! F106f (C06, recorded — not repaired): a CSI control function other than SGR whose parameter string contains a colon
(`CSI 1:5 B`) is IGNORED by a DEC VT (DEC STD 070: 3/10 in a parameter string → CSI-ignore) and by xterm (sub-parameters outside
SGR reset the parser) — `Spec.Term.Tok.ignored`. The emulator executes the function on the main values (`ps(params)` reads
`params[0][0]`): `CSI 1:5 B` moves the cursor down, `CSI 2:1;2 H` addresses row 2. Corpus: corpus/C06/F106f-subparams.ops.
Not repaired: the repair (return from csi() when a non-SGR sequence carries a sub-parameter) is small in Go, but it changes what
`CSI ? 1:5 h` does, which C13's child-mode specification reads the other way (it drops sub-parameters); recorded instead. -/
namespace VaxisModel.Witness.F106f
open VaxisModel.Model.Emu VaxisModel.Lemmas.EmuWitness

/-- 3×3: `CSI 1:5 B`, print "a": a VT / xterm ignores the sequence, the glyph belongs at the home position — the emulator
    writes it on the second line. -/
def ops : List EOp := [.csi [66] [(1, [5])], pr [97]]
/-- 3×3: `CSI 2:1;2 H`, print "a": ignored by a VT / xterm; the emulator addresses row 2, column 2. -/
def ops2 : List EOp := [.csi [72] [(2, [1]), (2, [])], pr [97]]
theorem cud_with_subparameter_is_executed : disagreesJ Fixes.current 3 3 ops = true := by decide +kernel
theorem cup_with_subparameter_is_executed : disagreesJ Fixes.current 3 3 ops2 = true := by decide +kernel
/-- the same sequences without the colon are inside the vocabulary and agree -/
theorem without_colon_agrees : agreesJ Fixes.current 3 3 [csi1 66 [1], pr [97]] = true ∧
    agreesJ Fixes.current 3 3 [csi1 72 [2, 2], pr [97]] = true := by decide +kernel
/-- The full statement over the oracle's vocabulary `tokOfJ`: no history the reference terminal constrains ends in a state it
    does not accept. FALSE of the current code, exactly in the region `tokOfJ` adds to `tokOfX` (`Props.C06.tokOfJ_region`);
    the proved theorems (`emu_refines_histories_X` …) are the statement without that region. -/
def refines_J_full : Prop := ∀ (w h : Nat) (ops : List EOp), 2 ≤ w → 2 ≤ h → disagreesJ Fixes.current w h ops = false
theorem refines_J_fails : ¬ refines_J_full := by
  intro h
  have := h 3 3 ops (by decide) (by decide)
  rw [cud_with_subparameter_is_executed] at this
  cases this
end VaxisModel.Witness.F106f
