/-
F111 — observed through the reference terminal after a `Render` (C11's observation point), `Print`
can change the rendered content of a screen cell outside the window: a cluster wider than the
remaining columns of the window's row is placed on the last column of the window and is displayed
beyond the window's right edge.

4×1 screen; window `A` = columns 0..2; the cell right of it (column 3, outside `A`) holds "a" in style 1.
`A.Print("aa世")` puts 世 (width 2) at column 2.  The *buffer* cell (3,0) is untouched — C11's
`print_clip` holds, the clipping of the writes is right — but after `Render` the terminal shows the
right half of 世 in column 3 instead of that "a".
-/
import VaxisModel.Props.C01App

namespace VaxisModel.Witness.F111
open VaxisModel.Model.Window VaxisModel.Model.App VaxisModel.Spec.Display VaxisModel.Spec.Window
open VaxisModel.Lemmas.AppSys VaxisModel.Props.C01App

def scr : Win := Win.root 0 0 4 1
def A : Win := scr.new 0 0 3 1
def text : List (Nat × List Raw) := [(0, [⟨5, 1, false⟩, ⟨5, 1, false⟩, ⟨6, 2, false⟩])]
def before : List SysOp := [.draw (.setCell scr 3 0 ⟨5, 0, 1⟩), .render]
def run : List SysOp := before ++ [.draw (.print A text), .render]

/-- Column 3 is outside the window's clip region … -/
theorem outside : ¬ visible A (Screen.resize 4 1) 3 0 := by decide

/-- … the buffer cell there is not changed by the `Print` (clipping of the writes holds) … -/
theorem buffer_unchanged :
    (sysRun exX (Sys.init 4 1) run).v.scr.get 3 0 = (sysRun exX (Sys.init 4 1) before).v.scr.get 3 0 := by decide

/-- … yet what the terminal shows in column 3 changes from the glyph set there to the right half
    of the wide cluster, and nothing terminal-specific was involved (`bad = none`). -/
theorem rendered_content_changes :
    ((sysRun exX (Sys.init 4 1) before).t.grid.map (·[3]?)) = [some (.glyph "61" 1 { fg := .idx 1 } "" "")] ∧
    ((sysRun exX (Sys.init 4 1) run).t.grid.map (·[3]?)) = [some DCell.cont] ∧
    (sysRun exX (Sys.init 4 1) run).t.bad = none := by decide

end VaxisModel.Witness.F111
