/-
F111 (C09, recorded): a letter pressed with Caps Lock on whose report does not carry the upper-case
text (kitty report-all-keys without the text flag: `CSI 97;65u`) does not match its own `String()`:
`String()` upper-cases the letter, `Matches` ignores Caps Lock.
So the unrestricted self-match statement is false of the current code; the proved theorems
(`Props.C09.self_match_named`, `self_match_char`) carry the hypothesis that excludes exactly this
region (`ch ≠ keycode → text = [ch]`).
-/
import VaxisModel.Model.Key
import VaxisModel.Spec.KeyEnc
import VaxisModel.Lemmas.KeySelf

namespace VaxisModel.Witness.F111
open VaxisModel.Model.Key VaxisModel.Spec.KeyEnc VaxisModel.Lemmas.KeySelf

/-- The full-strength statement: every pressed chord matches its own `String()`. -/
def C09_self_match_full : Prop :=
  ∀ (u : Uni) (k : Key), AsciiAgree u → pressedChord k = true → matchString u k (keyString u k) = true

def witness : Key := { keycode := 97, mods := capsBit }

theorem witness_is_pressed_chord : pressedChord witness = true := by decide

theorem witness_fails : matchString asciiUni witness (keyString asciiUni witness) = false := by decide

theorem self_match_full_fails : ¬ C09_self_match_full := by
  intro h
  have := h asciiUni witness ⟨fun _ _ _ => rfl, fun _ _ _ _ _ _ => rfl⟩ witness_is_pressed_chord
  rw [witness_fails] at this
  cases this

end VaxisModel.Witness.F111
