/-
F111 (fixed in /repo) — observed through the reference terminal after a `Render` (C11's observation
point), `Print` could change the rendered content of a screen cell outside the window: a cluster
wider than the remaining columns of the window's row was placed on the last column of the window
and was displayed beyond the window's right edge.

4×2 screen; window `A` = columns 0..2; the cell right of it (column 3, outside `A`) holds "a" in style 1.

* Before the repair `A.Print("aa世")` put 世 (width 2) at column 2 (`printGoOld` below is the loop
  as it was; `old_calls`).  The *buffer* cell (3,0) was untouched — C11's `print_clip` held, the
  clipping of the writes was right — but after `Render` the terminal showed the right half of 世 in
  column 3 instead of that "a" (`rendered_content_changed`).
* Now `Print` tests the cluster against the rest of the row first: 世 goes to the start of the next
  row and column 3 keeps showing "a" (`after_fix`).
-/
import VaxisModel.Props.C01App

namespace VaxisModel.Witness.F111
open VaxisModel.Model.Window VaxisModel.Model.App VaxisModel.Spec.Display VaxisModel.Spec.Window
open VaxisModel.Lemmas.AppSys VaxisModel.Props.C01App

def scr : Win := Win.root 0 0 4 2
def A : Win := scr.new 0 0 3 2
def text : List (Nat × List Raw) := [(0, [⟨5, 1, false⟩, ⟨5, 1, false⟩, ⟨6, 2, false⟩])]
def before : List SysOp := [.draw (.setCell scr 3 0 ⟨5, 0, 1⟩), .render]

/-- `Print` as it was before the repair (no fit test before `SetCell`). -/
def printGoOld (lib : Lib) (rm : Bool) (cols rows : Int) : List Styled → Int → Int → List Op × Int × Int
  | [], col, row => ([], col, row)
  | (st, ch0) :: rest, col, row =>
      if lib.hasNL ch0.g then printGoOld lib rm cols rows rest 0 (row + 1)
      else if row > rows then ([], col, row)
      else
        let ch := measured lib rm ch0
        let op : Op := { col := col, row := row, cell := { g := ch.g, w := ch.w, st := st } }
        let col' := col + ch.w
        let r := if col' ≥ cols then printGoOld lib rm cols rows rest 0 (row + 1)
                 else printGoOld lib rm cols rows rest col' row
        (op :: r.1, r.2)

/-- The `SetCell` calls the old loop made for `A.Print("aa世")`, as draw ops. -/
def oldCalls : List SysOp :=
  [.draw (.setCell A 0 0 ⟨5, 1, 0⟩), .draw (.setCell A 1 0 ⟨5, 1, 0⟩), .draw (.setCell A 2 0 ⟨6, 2, 0⟩)]

theorem old_calls :
    (printGoOld exX.lib exX.rm A.width A.height (flatten text) 0 0).1 =
      [⟨0, 0, ⟨5, 1, 0⟩⟩, ⟨1, 0, ⟨5, 1, 0⟩⟩, ⟨2, 0, ⟨6, 2, 0⟩⟩] := by decide

def runOld : List SysOp := before ++ oldCalls ++ [.render]
def run : List SysOp := before ++ [.draw (.print A text), .render]

/-- Column 3 is outside the window's clip region … -/
theorem outside : ¬ visible A (Screen.resize 4 2) 3 0 := by decide

/-- … the buffer cell there was not changed by the old `Print` (clipping of the writes held) … -/
theorem buffer_unchanged :
    (sysRun exX (Sys.init 4 2) runOld).v.scr.get 3 0 = (sysRun exX (Sys.init 4 2) before).v.scr.get 3 0 := by decide

/-- … yet what the terminal showed in column 3 changed from the glyph set there to the right half
    of the wide cluster, and nothing terminal-specific was involved (`bad = none`). -/
theorem rendered_content_changed :
    ((sysRun exX (Sys.init 4 2) before).t.grid.map (·[3]?)) = [some (.glyph "61" 1 { fg := .idx 1 } "" ""), some DCell.blank] ∧
    ((sysRun exX (Sys.init 4 2) runOld).t.grid.map (·[3]?)) = [some DCell.cont, some DCell.blank] ∧
    (sysRun exX (Sys.init 4 2) runOld).t.bad = none := by decide

/-- The repaired `Print`: 世 starts the next row; column 3 still shows the "a" set there. -/
theorem after_fix :
    (printOps exX.lib exX.rm A text).1.map (fun o => (o.col, o.row)) = [(0, 0), (1, 0), (0, 1)] ∧
    ((sysRun exX (Sys.init 4 2) run).t.grid.map (·[3]?)) = [some (.glyph "61" 1 { fg := .idx 1 } "" ""), some DCell.blank] ∧
    ((sysRun exX (Sys.init 4 2) run).t.grid.map (·[0]?)) =
      [some (.glyph "61" 1 {} "" ""), some (.glyph "e4b896" 2 {} "" "")] ∧
    (sysRun exX (Sys.init 4 2) run).t.bad = none := by decide

end VaxisModel.Witness.F111
