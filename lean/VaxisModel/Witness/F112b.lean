import VaxisModel.Model.C12Compose
/-! F112b (C12, known finding): a `;` in `Style.HyperlinkParams` is written verbatim into
`OSC 8 ; params ; url ST`, so the parameter field ends at that `;` and the rest becomes part of the
URL — in the embedded emulator as in any terminal. This is the point excluded by the hypothesis
`CellOk` (`59 ∉ dec c.style.linkParams`) of `Props.C12.emu_shows_application`; it is necessary:
the emulator model, fed the renderer's token `osc8 "a;b" "h"` through the wire, stores the URL
`b;h` and the parameters `a`. Replayed on the real code by the C12 harness scenario `lp-semicolon`. -/
namespace VaxisModel.Witness.F112b
open VaxisModel.Model.Emu VaxisModel.Model.C12Compose VaxisModel.Model.Render

def dec : String → G := fun s => if s = "613b62" then [97, 59, 98] else if s = "68" then [104] else []

theorem semicolon_in_params_corrupts_url :
    (match runOps Emu.init (opsOf dec (fun _ => 1) (Tok.osc8 "613b62" "68")) with
     | .ok e => decide (e.cur.st.link = [98, 59, 104] ∧ e.cur.st.linkParams = [97])
     | .error _ => false) = true := by decide +kernel

end VaxisModel.Witness.F112b
