import VaxisModel.Model.C12Compose
/-! F112b (C12; FIXED in /repo 3525279 by the C01 builder): a `;` in `Style.HyperlinkParams` was written
verbatim into `OSC 8 ; params ; url ST`, so the parameter field ended at that `;` and the rest became part
of the URL — in the embedded emulator as in any terminal.

* `semicolon_in_params_corrupts_url` (kept): what the OLD token does — the emulator model, fed
  `osc8 "a;b" "h"` through the wire, stores the URL `b;h` and the parameters `a`. This is why the
  composition theorems needed the hypothesis `59 ∉ dec c.style.linkParams` (`CellOk`) until round 3.
* `render_cuts_params_now`, `cut_params_keep_url` (round 4): the renderer model after the repair
  (`Model.Render.lpField`) writes the parameter field up to the first `;` — the token is `osc8 "a" "h"` —
  and the emulator model stores the URL `h` with the parameters `a`: the cell shows the URL the
  application set. The hypothesis is gone from `CellOk`; what remains is `LpOk dec` (the byte decoding
  maps `lpField s` to bytes without `;`), a property of the hex decoding, not of the application's cells.
Replayed on the real code by the C12 harness scenario `lp-semicolon` (it passes now; before the repair it
was the known finding). -/
namespace VaxisModel.Witness.F112b
open VaxisModel.Model.Emu VaxisModel.Model.C12Compose VaxisModel.Model.Render

def dec : String → G := fun s =>
  if s = "613b62" then [97, 59, 98] else if s = "68" then [104] else if s = "61" then [97] else []

theorem semicolon_in_params_corrupts_url :
    (match runOps Emu.init (opsOf dec (fun _ => 1) (Tok.osc8 "613b62" "68")) with
     | .ok e => decide (e.cur.st.link = [98, 59, 104] ∧ e.cur.st.linkParams = [97])
     | .error _ => false) = true := by decide +kernel

/-- The renderer model now: the OSC 8 token of the F112b cell carries the parameter field `a`. -/
theorem render_cuts_params_now :
    penDelta {} {} { link := "68", linkParams := "613b62" } = [Tok.osc8 "61" "68"] := by decide

/-- … and the emulator model stores the application's URL with those parameters. -/
theorem cut_params_keep_url :
    (match runOps Emu.init ((penDelta {} {} { link := "68", linkParams := "613b62" }).flatMap (opsOf dec (fun _ => 1))) with
     | .ok e => decide (e.cur.st.link = [104] ∧ e.cur.st.linkParams = [97])
     | .error _ => false) = true := by decide +kernel

end VaxisModel.Witness.F112b
