import VaxisModel.Model.Emu
/-! F112c (C12, FIXED by /repo aefad78; emulator side, widgets/term/term.go `resize`): the reflow loop of
`resize()` set the pen to the style of every reflowed cell of the primary screen and did not
restore it, so after a host resize the pen is the style of the last reflowed cell. A Vaxis
application (alternate screen) that redraws afterwards writes default-style cells without any SGR
— `render()` rightly believes the pen was reset by the last flush — and they all show that stale
style. The composition theorems of Props/C12.lean are per size (a resize re-establishes the start
state `DSim … startDisplay`, whose pen is the default); this witness shows the emulator model does
NOT re-establish it: 4×2, the child writes a blue-background line on the primary screen, `?1049h`,
the application's output ends on row 1, `resize(5, 2)`: the pen's background is palette index 4.
Replayed on the real code by the C12 harness scenario `resize-pen` (the whole redrawn screen is blue). -/
namespace VaxisModel.Witness.F112c
open VaxisModel.Model.Emu

def ops : List EOp :=
  [.csi [109] [(44, [])], .print [97] 1, .print [98] 1, .print [99] 1, .print [100] 1, .c0 13, .c0 10, .csi [109] [],
   .csi [63, 104] [(1049, [])], .csi [72] [(2, []), (1, [])], .print [121] 1, .csi [109] [],
   .resize 5 2]

/-- `runOps` over the code with a given set of repairs. -/
def runOpsF (fx : Fixes) (e : Emu) : List EOp → M Emu
  | [] => .ok e
  | op :: rest => do
    let (e', _) ← emuStepF fx e op
    runOpsF fx e' rest

/-- The code before the repair aefad78 (`f112c := false`): before the resize the pen is the default;
    after it its background is palette index 4. -/
theorem resize_leaves_stale_pen :
    (match Emu.new Fixes.current 4 2 with
     | .ok e0 =>
       (match runOpsF { Fixes.current with f112c := false } e0 (ops.take 12),
              runOpsF { Fixes.current with f112c := false } e0 ops with
        | .ok e1, .ok e2 => decide (e1.cur.st = {} ∧ e2.cur.st.bg = indexColor 4)
        | _, _ => false)
     | .error _ => false) = true := by decide +kernel

/-- The code as it is now: the pen after the resize is the pen before it (the default). -/
theorem resize_keeps_pen_now :
    (match Emu.new Fixes.current 4 2 with
     | .ok e0 =>
       (match runOps e0 (ops.take 12), runOps e0 ops with
        | .ok e1, .ok e2 => decide (e1.cur.st = {} ∧ e2.cur.st = {})
        | _, _ => false)
     | .error _ => false) = true := by decide +kernel

end VaxisModel.Witness.F112c
