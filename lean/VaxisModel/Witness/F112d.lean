import VaxisModel.Props.C12
/-! F112d (C12, known finding; renderer side, /repo/vaxis.go `render()`): the graphemes of consecutive
cells are written back to back (no CUP while `reposition` is false). Two cells whose graphemes are
clusters on their own but ONE cluster when the second directly follows the first (regional
indicator D then E, Hangul jamo L then V, an emoji then ZWJ + emoji) are re-segmented by the
emulator's parser — as by every terminal with grapheme clustering — into one grapheme.

The hypothesis `NoMergeGrid` of `Props.C12.emu_shows_application_clustered` is therefore necessary:
on a 6×1 screen with D (width 2) at column 0, E (width 2) at column 2 and `z` at column 5, the
composed models with a parser that merges D and E put the cluster DE into column 0 and `z` into
column 3; column 5 is never written. Replayed on the real code by the C12 harness scenarios
`merge-0` … `merge-2`. -/
namespace VaxisModel.Witness.F112d
open VaxisModel.Model.Render VaxisModel.Model.Emu VaxisModel.Props.C12 VaxisModel.Props.C01Display

def cwW : String → Nat := fun g => if g = "" then 0 else if g = "D" ∨ g = "E" then 2 else 1
def decW : String → G := fun s =>
  if s = "" then [] else if s = "20" then [32] else if s = "D" then [1] else if s = "E" then [2]
  else if s = "DE" then [1, 2] else [122]
def mergesW : String → String → Bool := fun a b => a == "D" && b == "E"
def catW : String → String → String := fun a b => a ++ b

def frame : FrameIn := ⟨true, [[({ g := "D" } : Cell), {}, { g := "E" }, {}, {}, { g := "z" }]], {}, ""⟩

/-- With a parser that merges D and E: the cluster lands in column 0, `z` in column 3, column 5 stays
    unwritten — the application's screen is not shown. Without merging, `z` is in column 5. -/
theorem clustering_breaks_composition :
    (match runOps (VaxisModel.Lemmas.EmuRefine.newState 6 1) [.csi [63, 108] [(25, [])]] with
     | .ok e0 =>
       (match runFramesM mergesW catW decW cwW (startState 6 1) e0 [frame],
              runFramesM (fun _ _ => false) catW decW cwW (startState 6 1) e0 [frame] with
        | .ok e, .ok e' =>
          decide ((e.active.map fun r => r.map (·.g)) = [[[1, 2], [32], [122], [], [], []]]) &&
          decide ((e'.active.map fun r => r.map (·.g)) = [[[1], [32], [2], [32], [32], [122]]])
        | _, _ => false)
     | .error _ => false) = true := by decide +kernel

end VaxisModel.Witness.F112d
