/-
F114 (C14, fixed in /repo 2175cec): App.Run rendered the root surface into the whole screen window
(`s.render(win, …)`), so the children of the root were not clipped to the root surface's own
rectangle, while every deeper surface clips its children and the mouse hit test requires the point
to be inside the root.  Witness (corpus/C14/F114-root-does-not-clip.ops): 2×2 screen, root surface
0×1 with an empty buffer and one 1×1 child at (1,1): the old entry paints the child at (1,1), the
property (every surface clipped to its parent) leaves the screen unchanged.

`renderRootWith false` is the entry before the fix, `renderRootWith true` the entry of the current
source (`Props.C14.facts_run_render`).
-/
import VaxisModel.Lemmas.SurfacePaintSpec

namespace VaxisModel.Witness.F114
open VaxisModel.Model.Window VaxisModel.Model.Surface VaxisModel.Spec.Surface
open VaxisModel.Lemmas.SurfacePaintSpec

def old : Cell := { g := 9, w := 1, st := 255 }
def kid : Cell := { g := 100, w := 1, st := 11 }

def root : Surface := .mk 0 1 [] (.cons 1 1 (-1) (.mk 1 1 [kid] .nil) .nil)

def scr : Screen := { cols := 2, rows := 2, buf := [[old, old], [old, old]] }

/-- What the property prescribes at `(x,y)`: the top layer of the root-clipped painter's algorithm,
else the cell stays. -/
def want (x y : Int) : Option Cell :=
  match topAt (layers true (toTree 0 0 0 root) 0 0 { x0 := 0, y0 := 0, x1 := 2, y1 := 2 }) x y with
  | some c => some c
  | none => scr.get x y

/-- The property leaves (1,1) alone: the child lies outside the 0×1 root. -/
theorem spec_leaves_cell : want 1 1 = some old := by decide

/-- The entry before the fix paints the child there. -/
theorem unclipped_paints_outside_root :
    (match renderRootWith false root (Win.ofScreen scr) scr with
     | .ok s' => s'.get 1 1 == some kid
     | .error _ => false) = true := by decide

/-- So `render_paints` is false of the un-clipped entry: the hypotheses hold (well-formed 2×2 screen,
no division by zero) and the conclusion fails at (1,1). -/
theorem render_paints_fails_unclipped :
    root.divZero = false ∧
    (match renderRootWith false root (Win.ofScreen scr) scr with
     | .ok s' => s'.get 1 1 != want 1 1
     | .error _ => false) = true := by decide

/-- The root-clipping entry (current source) leaves the cell alone, as the property says. -/
theorem clipped_ok :
    (match renderRootWith true root (Win.ofScreen scr) scr with
     | .ok s' => (s'.get 1 1 == want 1 1) && (s'.get 0 0 == want 0 0) && (s'.get 1 0 == want 1 0) && (s'.get 0 1 == want 0 1)
     | .error _ => false) = true := by decide

end VaxisModel.Witness.F114
