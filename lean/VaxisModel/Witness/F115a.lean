import VaxisModel.Props.C15
import VaxisModel.Lemmas.VxfwPrefix

/-! F115a (fixed in /repo by acdac0e): before the fix `focusWidget` did not touch `path`, so after
a focus command and before the next frame key events were routed along the old focus path. Tree:
root 0 with children 1 and 2; focus 0 → command `focus 1` → key. The pre-fix code offers the key
to widget 1 only; widget 0 (its parent) never sees it in the bubble phase. The current model
routes it over the drawn chain `[0, 1]` (`key_routing_drawn_cmd`). -/
namespace VaxisModel.Witness.F115a
open VaxisModel.Model.Vxfw VaxisModel.Spec.Routing VaxisModel.Lemmas.Vxfw VaxisModel.Props.C15
open VaxisModel.Lemmas

def tree : STree := .node 0 10 10 [(0, 0, 0, .node 1 3 3 []), (4, 0, 0, .node 2 3 3 [])]
def o : Oracle := ⟨fun _ _ _ _ => .nil, fun _ => false⟩

/-- State after the frame and the pre-fix `focus 1` command: path still `[0]`. -/
def s2old : St := VxfwPrefix.handleCommand o 4 (updatePath o 4 (St.init 0) tree) (.focus 1)
def s2 : St := handleCommand o 4 (updatePath o 4 (St.init 0) tree) (.focus 1)

theorem prefix_state : s2old.focused = 1 ∧ s2old.path = [0] := by decide

theorem prefix_observed :
    (handleEvent o 4 s2old (.key 65)).trace = s2old.trace ++ [.call 1 (.key 65) .target] := by decide

theorem required : route o.captures (expectedPath 0 tree 1) 1 = [(1, .target), (0, .bubble)] := by decide

/-- The pre-fix trace does not follow the plan over the drawn chain of the focused widget. -/
theorem prefix_key_routing_drawn_fails :
    conforms (.key 65) s2old.focused (planOf o.captures (expectedPath 0 tree s2old.focused) .focusTgt)
      [.call 1 (.key 65) .target] = false := by decide

/-- Current code: path `[0, 1]`, the parent gets the bubble. -/
theorem fixed_observed : s2.path = [0, 1] ∧
    (handleEvent o 4 s2 (.key 65)).trace = s2.trace ++ [.call 1 (.key 65) .target, .call 0 (.key 65) .bubble] := by
  decide

end VaxisModel.Witness.F115a
