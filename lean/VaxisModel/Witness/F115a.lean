import VaxisModel.Props.C15

/-! F115a: after a focus command and before the next frame, key events are routed along the old
focus path. Tree: root 0 with children 1 and 2; focus 0 → command `focus 1` → key. The code
offers the key to widget 1 only; widget 0 (its parent) never sees it in the bubble phase. -/
namespace VaxisModel.Witness.F115a
open VaxisModel.Model.Vxfw VaxisModel.Spec.Routing VaxisModel.Lemmas.Vxfw VaxisModel.Props.C15

def tree : STree := .node 0 10 10 [(0, 0, 0, .node 1 3 3 []), (4, 0, 0, .node 2 3 3 [])]
def o : Oracle := ⟨fun _ _ _ _ => .nil, fun _ => false⟩
def s2 : St := handleCommand o 4 (updatePath o 4 (St.init 0) tree) (.focus 1)

theorem observed : (handleEvent o 4 s2 (.key 65)).trace = s2.trace ++ [.call 1 (.key 65) .target] := by decide

theorem required : route o.captures (expectedPath 0 tree s2.focused) s2.focused =
    [(1, .target), (0, .bubble)] := by decide

theorem key_routing_drawn_fails : ¬ key_routing_drawn_full := by
  intro h
  obtain ⟨tr, htr, hc⟩ := h o 4 (St.init 0) tree (.focus 1) (.key 65) ⟨by decide, by decide⟩ [0, 1] (by decide)
  have e : tr = [.call 1 (.key 65) .target] := by
    have h1 := observed
    unfold s2 at h1
    rw [h1] at htr
    exact (List.append_cancel_left htr).symm
  subst e
  revert hc
  decide

end VaxisModel.Witness.F115a
