import VaxisModel.Props.C15

/-! F115b: a FocusOut handler that answers with a focus command. Focus 0, command `focus 1`,
widget 0 answers its first FocusOut with `focus 2`: widget 0 gets FocusOut twice, widget 2 gets
a FocusIn and never a FocusOut, the focus ends on 1. -/
namespace VaxisModel.Witness.F115b
open VaxisModel.Model.Vxfw VaxisModel.Spec.Routing VaxisModel.Lemmas.Vxfw VaxisModel.Props.C15

def o : Oracle := ⟨fun _ ev _ k => if ev = .focusOut ∧ k = 0 then .focus 2 else .nil, fun _ => false⟩

theorem observed : (handleCommand o 4 (St.init 0) (.focus 1)).trace =
    [.call 0 .focusOut .target, .call 0 .focusOut .target, .eff (.focusSet 2), .call 2 .focusIn .target,
     .eff (.focusSet 1), .call 1 .focusIn .target] := by decide

theorem focus_change_once_fails : ¬ focus_change_once_full := by
  intro h
  obtain ⟨t, ht, hp⟩ := h o 4 (St.init 0) (.focus 1)
  rw [observed] at ht
  have e : t = _ := (List.append_cancel_left (as := []) ht).symm
  subst e
  revert hp
  decide

end VaxisModel.Witness.F115b
