import VaxisModel.Props.C15
import VaxisModel.Lemmas.VxfwPrefix

/-! F115b (fixed in /repo by 4c7e445): before the fix a FocusOut handler answering with a focus
command re-entered `focusWidget` while `focused` was still the old widget. Focus 0, command
`focus 1`, widget 0 answers its first FocusOut with `focus 2`: widget 0 got FocusOut twice,
widget 2 a FocusIn and never a FocusOut, the focus ended on 1. The current code sends both
notifications before either command: FocusOut 0, FocusIn 1, FocusOut 1, FocusIn 2. -/
namespace VaxisModel.Witness.F115b
open VaxisModel.Model.Vxfw VaxisModel.Spec.Routing VaxisModel.Lemmas.Vxfw VaxisModel.Props.C15
open VaxisModel.Lemmas

def o : Oracle := ⟨fun _ ev _ k => if ev = .focusOut ∧ k = 0 then .focus 2 else .nil, fun _ => false⟩

theorem prefix_observed : (VxfwPrefix.handleCommand o 4 (St.init 0) (.focus 1)).trace =
    [.call 0 .focusOut .target, .call 0 .focusOut .target, .eff (.focusSet 2), .call 2 .focusIn .target,
     .eff (.focusSet 1), .call 1 .focusIn .target] := by decide

theorem prefix_focus_change_once_fails :
    focusRun 0 false (VxfwPrefix.handleCommand o 4 (St.init 0) (.focus 1)).trace = none := by decide

theorem fixed_observed : (handleCommand o 4 (St.init 0) (.focus 1)).trace =
    [.call 0 .focusOut .target, .eff (.focusSet 1), .call 1 .focusIn .target,
     .call 1 .focusOut .target, .eff (.focusSet 2), .call 2 .focusIn .target] ∧
    focusRun 0 false (handleCommand o 4 (St.init 0) (.focus 1)).trace = some 2 := by decide

end VaxisModel.Witness.F115b
