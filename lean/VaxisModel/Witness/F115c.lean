import VaxisModel.Model.Vxfw
import VaxisModel.Lemmas.VxfwRank
import VaxisModel.Props.C15Body

/-! F115c (observation, recorded): `App.handleCommand` → `focusHandler.focusWidget` → the FocusIn handler →
`App.handleCommand` … is an unbounded recursion when two widgets answer their FocusIn notification with a
`FocusWidgetCmd` for each other.  In the model the nesting budget (`fuel`) runs out for EVERY budget — so the
hypothesis `stuck = false` of `commands_once_history` cannot be dropped for all handler behaviours; on the
real code the recursion ends in Go's fatal `stack overflow` (the process dies; `recover` does not help).
The replay (subprocess, see notes/C15.md) shows exactly that.  Handlers whose focus commands are
well-founded (no focus command in an answer to FocusIn / FocusOut: `Props.C15.commands_once_history_wf`, `Lemmas.Vxfw.run_never_stuck`) never get there with any budget ≥ 2. -/
namespace VaxisModel.Witness.F115c
open VaxisModel.Model.Vxfw

/-- Widgets 1 and 2 each answer FocusIn by asking for the focus to go to the other one. -/
def o : Oracle :=
  ⟨fun w ev _ _ => if ev = .focusIn then (if w = 1 then .focus 2 else if w = 2 then .focus 1 else .nil) else .nil,
   fun _ => false⟩

def other (w : Id) : Id := if w = 1 then 2 else 1

theorem nil_keeps_focus (fuel : Nat) (s : St) : (handleCommand o fuel s .nil).focused = s.focused := by
  cases fuel <;> simp [handleCommand, Cmd.flatten]

/-- **For every nesting budget** a focus command for widget 1 or 2 (from any state in which it is not
    focused yet) exhausts the budget. -/
theorem ping_pong_stuck : ∀ (fuel : Nat) (s : St) (w : Id), (w = 1 ∨ w = 2) → s.focused ≠ w →
    (handleCommand o fuel s (.focus w)).stuck = true := by
  intro fuel
  induction fuel with
  | zero => intro s w _ _; rfl
  | succ f ih =>
    intro s w hw hne
    have hin : o.h w .focusIn .target = fun _ => Cmd.focus (other w) := by
      funext k
      rcases hw with rfl | rfl <;> simp [o, other]
    have hout : ∀ k, o.h s.focused .focusOut .target k = Cmd.nil := by intro k; simp [o]
    simp only [handleCommand, Cmd.flatten, List.foldl_cons, List.foldl_nil, execAtom, focusWidgetWith, hne, ↓reduceIte,
      call, hin, hout]
    apply ih
    · unfold other; rcases hw with rfl | rfl <;> simp
    · rw [nil_keeps_focus]
      unfold other
      rcases hw with rfl | rfl <;> simp [findPath]

/-- From the start of `Run` (root widget 0 focused): the command `focus 1` never completes. -/
theorem from_init (fuel : Nat) : (handleCommand o fuel (St.init 0) (.focus 1)).stuck = true :=
  ping_pong_stuck fuel (St.init 0) 1 (Or.inl rfl) (by decide)

/-- No rank function makes the ping-pong oracle `NotifRanked`: the rank condition of `commands_once_history_ranked` fails
    exactly because the two FocusIn answers point at each other. -/
theorem no_rank : ¬ ∃ rk : Id → Nat, VaxisModel.Lemmas.Vxfw.NotifRanked o rk := by
  rintro ⟨rk, h⟩
  have h1 := (h 1 .target 0).1 (.focus 2) (by simp [o, Cmd.flatten]) 2 rfl
  have h2 := (h 2 .target 0).1 (.focus 1) (by simp [o, Cmd.flatten]) 1 rfl
  omega

/-- The same through the EXECUTED body of `App.handleCommand` (regenerated from vxfw.go; its `a.fh.focusWidget(a, cmd)` is the
    model's `focusWidget`, which `focus_widget_body_eq_model` identifies with its executed body): for every nesting budget the
    interpreted `handleCommand(FocusWidgetCmd(1))` from the start of `Run` ends with the budget exhausted. -/
theorem ping_pong_stuck_body (fuel : Nat) :
    (VaxisModel.Model.VxfwInterp.runHandleCommand (VaxisModel.Model.DynExec.parseBody VaxisModel.Gen.VxfwBodies.handleCommand)
        (VaxisModel.Lemmas.Vxfw.e0 o) fuel (St.init 0) (.focus 1)).map (·.stuck) = some true := by
  rw [VaxisModel.Props.C15Body.handle_command_body_eq_model, (VaxisModel.Props.C15Err.no_error_agrees_handlers o (fuel + 1) (St.init 0)).1]
  exact congrArg some (from_init (fuel + 1))

end VaxisModel.Witness.F115c
