/-
F116 (C16): `text.SoftwrapScanner.Scan` keeps the *old* uniseg state when it splits a word that is
wider than the line (`s.state` is only assigned on the branches that consume a whole segment), and
`uniseg.FirstLineSegment(rest, state)` takes the line-break class of the *first rune of rest* from
`state`.  After the split `rest` starts somewhere else, so the next query mis-classifies its first
rune: a line terminator standing there is not recognised, the hard break does not end the line and
the terminator is emitted inside the next line (" 世\nb" at width 1 gives the lines " ", "世", "\nb").

Here: an abstract segmentation oracle that meets every hypothesis of the end-to-end theorems
(`OracleOK`, `OracleTermW` — strong for fresh queries, weak for stale ones) and for which the model
emits a line with a terminator inside: `plain_lines_no_terminator_full` is false.  The oracle
mimics uniseg: the state is the class of the first cell of `rest` (1 = line terminator), a segment
is one cell, the must-break flag is taken from the *state*.
-/
import VaxisModel.Model.Wrap
import VaxisModel.Spec.Wrap
import VaxisModel.Lemmas.WrapE2E

namespace VaxisModel.Witness.F116
open VaxisModel.Model.Wrap VaxisModel.Lemmas.Wrap
open VaxisModel.Spec.Wrap (noTermInLines hardBreakOK)

def classOf : Option Cell → Nat
  | some c => if c.term then 1 else 0
  | none => 0

/-- one-cell segments; must-break iff the *state* says "terminator" (or the text ends) -/
def o : Nat → List Cell → Nat × Bool × Nat :=
  fun st rest => (1, st == 1 || decide (rest.length ≤ 1), classOf (rest.drop 1).head?)

def Fresh : Nat → List Cell → Prop := fun st rest => st = classOf rest.head?

theorem o_ok : OracleOK o := by
  intro st rest _
  refine ⟨Nat.le_refl 1, ?_⟩
  intro h
  simp only [o] at h ⊢
  simp [show rest.length ≤ 1 from h]

theorem o_term : OracleTermW o Fresh := by
  refine ⟨fun st rest => ?_, fun st rest hf => ?_, fun st rest => ?_⟩
  · simp only [Fresh, o]
  · cases rest with
    | nil => exact ⟨by simp [o], by simp [o]⟩
    | cons c cs =>
      refine ⟨by simp [o], ?_⟩
      intro x hx ht
      simp only [o, List.take_succ_cons, List.take_zero, List.getLast?_singleton, Option.some.injEq] at hx
      subst hx
      simp only [Fresh, classOf, List.head?_cons, ht, ↓reduceIte] at hf
      simp [o, hf]
  · cases rest with
    | nil => exact ⟨by simp [o], by simp [o]⟩
    | cons c cs =>
      refine ⟨by simp [o], ?_⟩
      intro x _ _ hlen
      simp [o] at hlen

def W : Cell := { g := 0, w := 2, style := 0, sp := false, term := false, nl := false }
def nl : Cell := { g := 1, w := 0, style := 0, sp := true, term := true, nl := true }
def b : Cell := { g := 2, w := 1, style := 0, sp := false, term := false, nl := false }

/-- "世\nb" at width 1: the wide grapheme is split off, the state stays "not a terminator", the
newline is not recognised and lands inside the second line. -/
theorem lines_witness : lines o 1 [W, nl, b] 0 = .ok [[W], [nl, b]] := by decide

theorem terminator_inside_line : noTermInLines [[W], [nl, b]] = false := by decide

/-- the weaker, content-based reading still holds (as `hard_break_end_to_end` proves in general) -/
theorem content_reading_holds : hardBreakOK [W, nl, b] [[W], [nl, b]] = true := by decide

theorem no_terminator_full_fails :
    ¬ (∀ (o : Nat → List Cell → Nat × Bool × Nat) (Fresh : Nat → List Cell → Prop),
        OracleOK o → OracleTermW o Fresh → ∀ (width : Nat), 0 < width →
        ∀ (cells : List Cell), (∀ c ∈ cells, c.term = true → c.sp = true) →
        ∀ (st0 : Nat) (ls : List (List Cell)), lines o width cells st0 = .ok ls →
        noTermInLines ls = true) := by
  intro h
  have := h o Fresh o_ok o_term 1 (by decide) [W, nl, b] (by decide) 0 _ lines_witness
  rw [terminator_inside_line] at this
  cases this

end VaxisModel.Witness.F116
