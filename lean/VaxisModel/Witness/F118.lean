/-
F118 — NewStyledString does not understand the legacy semicolon colour forms that `render` and
`EncodeCells` write under VAXIS_FORCE_LEGACY_SGR (quirks.go rewrites `:` to `;` in the four SGR
format variables). `38;5;1`: cell.go's parseSGR and the embedded terminal read "foreground = palette
entry 1"; NewStyledString reads 38 as nothing (no sub-parameters), 5 as blink and 1 as bold.
The full statement `producers_consumers_agree_full` is therefore false of the current code; the
proved theorem `Props.C18.producers_consumers_agree` is restricted to the colon forms.
Replayed on the real code by corpus/C18/F118-ss-legacy.ops (known finding F118).
-/
import VaxisModel.Props.C18

namespace VaxisModel.Witness.F118
open VaxisModel VaxisModel.Model.Sgr VaxisModel.Gen VaxisModel.Spec VaxisModel.Lemmas.Sgr

/-- The sequence is in the producers' range (legacy quirk on). -/
theorem witness_in_range : emittableLegacy [[38], [5], [1]] = true := by decide

/-- It is what `EncodeCells` writes for a cell with foreground `IndexColor(17)`… (here: index 17, since
    0–15 use the basic / bright codes). -/
theorem witness_emitted :
    encodeDelta true {} { fg := VaxisModel.Model.Color.indexColor 17 } = [[[38], [5], [17]]] := by decide

theorem parse_reads_colour : parseSGR {} [[38], [5], [1]] = .ok { fg := VaxisModel.Model.Color.indexColor 1 } := by rfl
theorem emu_reads_colour : emuSgr {} [[38], [5], [1]] = .ok { fg := VaxisModel.Model.Color.indexColor 1 } := by rfl
theorem ss_reads_blink_bold :
    ssSeq {} {} [[38], [5], [1]] = .ok { attr := SgrCases.AttrBlink ||| SgrCases.AttrBold } := by rfl

theorem producers_consumers_agree_full_fails : ¬ Props.C18.producers_consumers_agree_full := by
  intro h
  obtain ⟨s', h1, _, h3, _⟩ := h {} wf_default [[38], [5], [1]] witness_in_range
  rw [parse_reads_colour] at h1
  rw [ss_reads_blink_bold] at h3
  cases h1
  injection h3 with h3
  revert h3
  decide

end VaxisModel.Witness.F118
