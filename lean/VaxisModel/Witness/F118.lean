/-
F118 (fixed in /repo by `fix: NewStyledString understands the legacy semicolon colour forms …`) —
before the repair NewStyledString did not understand the legacy semicolon colour forms that `render`
and `EncodeCells` write under VAXIS_FORCE_LEGACY_SGR (quirks.go rewrites `:` to `;` in the four SGR
format variables). `38;5;1`: cell.go's parseSGR and the embedded terminal read "foreground = palette
entry 1"; NewStyledString read 38 as nothing (no sub-parameters), 5 as blink and 1 as bold.

The pre-repair code is kept here as a literal: the same loop interpreted over the arity table the
extractor produced then (`case "38"` had only `case 3` / `case 5` under `switch len(subs)`), for which
`accepts 38 1 = false`, i.e. the bare 38 is skipped and `5`, `1` are read on their own.  With it the
full agreement statement is false; with the regenerated table it holds (`Props.C18.producers_consumers_agree`).
Replayed on the real code by corpus/C18/F118-ss-legacy.ops (now expected to pass).
-/
import VaxisModel.Props.C18

namespace VaxisModel.Witness.F118
open VaxisModel VaxisModel.Model.Sgr VaxisModel.Gen VaxisModel.Spec VaxisModel.Lemmas.Sgr

/-- The arities of NewStyledString before the repair. -/
def ssCfgOld : Cfg :=
  ⟨SgrCases.ssParseLabels, [(4, [1, 2], true), (38, [3, 5], false), (48, [3, 5], false), (58, [3, 5], false)],
   SgrCases.ssParseUlSubs, []⟩

def ssSeqOld (dflt s : Style) (ps : Seq) : Except Panic Style :=
  if ps.isEmpty then .ok dflt else ssLoop ssCfgOld dflt (ps.map (·.map tokN)) s

/-- The sequence is in the producers' range (legacy quirk on). -/
theorem witness_in_range : emittableLegacy [[38], [5], [1]] = true := by decide

/-- It is what `EncodeCells` writes for a cell with foreground `IndexColor(17)`… (here: index 17, since
    0–15 use the basic / bright codes). -/
theorem witness_emitted :
    encodeDelta true {} { fg := VaxisModel.Model.Color.indexColor 17 } = [[[38], [5], [17]]] := by decide

theorem parse_reads_colour : parseSGR {} [[38], [5], [1]] = .ok { fg := VaxisModel.Model.Color.indexColor 1 } := by rfl
theorem emu_reads_colour : emuSgr {} [[38], [5], [1]] = .ok { fg := VaxisModel.Model.Color.indexColor 1 } := by rfl
/-- Before the repair. -/
theorem ss_old_reads_blink_bold :
    ssSeqOld {} {} [[38], [5], [1]] = .ok { attr := SgrCases.AttrBlink ||| SgrCases.AttrBold } := by rfl
/-- After the repair (the regenerated arity table). -/
theorem ss_reads_colour : ssSeq {} {} [[38], [5], [1]] = .ok { fg := VaxisModel.Model.Color.indexColor 1 } := by rfl

/-- The full agreement statement with the pre-repair NewStyledString is false. -/
theorem producers_consumers_agree_full_fails_unfixed :
    ¬ (∀ (s : Style), s.wf → ∀ q, emittableLegacy q = true →
        ∃ s', parseSGR s q = .ok s' ∧ emuSgr s q = .ok s' ∧ ssSeqOld {} s q = .ok s' ∧
          shown s' = Spec.sgr (shown s) q) := by
  intro h
  obtain ⟨s', h1, _, h3, _⟩ := h {} wf_default [[38], [5], [1]] witness_in_range
  rw [parse_reads_colour] at h1
  rw [ss_old_reads_blink_bold] at h3
  cases h1
  injection h3 with h3
  revert h3
  decide

end VaxisModel.Witness.F118
