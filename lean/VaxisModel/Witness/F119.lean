import VaxisModel.Model.DynList
import VaxisModel.Lemmas.DynList

/-! Findings in vxfw/list `Dynamic` (replayed on the real code from /verif/corpus/C19/F119*.ops).
All seven are repaired in /repo; the model carries each repair as a Bool of `Facts`
(cursorGuard, insertStops, clampTop, gapAbove, revealAbove, uintIndex; F119g is `ensureScrollUnfixed`), so the witnesses run the model of the
code BEFORE the repair (`false`) and after it (`true`).

* F119  (fixed, /repo 5b2dab9): cursor gutter indexes the children with a wrapped `cursor - top`.
* F119f (fixed, /repo aaed274): `insertChildren` left `scroll.top` one below the first inserted widget.
* F119b (fixed, /repo 76bc81b): items replaced by fewer than `top`, then an upward scroll:
  `Children[len-1]` of an empty list.
* F119c (fixed, /repo c38045a): children inserted above the top ignored a non-zero gap.
* F119d (fixed, /repo 14bcb60): the builder's content shrinks below the scroll offset: the selection
  stayed above the viewport.
* F119g (fixed, /repo ee95cee): a scroll pending from before a selection change to an item at or above
  the top scrolled the newly selected item out of view. -/
namespace VaxisModel.Witness.F119
open VaxisModel.Model.DynList VaxisModel.Lemmas.DynList

def panics {α} (r : Except Panic α) : Bool := match r with | .error _ => true | .ok _ => false

/-- F119: DrawCursor, three items, wheel down, two draws — without the guard (and with the index
    compared as an `int`, as the code did then) the second panics. -/
theorem gutter_panics_unguarded :
    panics (run ⟨false, true, true, true, true, false⟩ ⟨0, true⟩ [3, 1, 2] init [.wheelDown, .draw 4 1, .draw 4 1]) = true := by decide

/-- … and with the guard it does not. -/
theorem gutter_ok_guarded :
    panics (run Facts.fixed ⟨0, true⟩ [3, 1, 2] init [.wheelDown, .draw 4 1, .draw 4 1]) = false := by decide

/-- The F119b history: four items of height 1, `SetCursor(3); Draw` (top = 2), the items replaced by
    a single one, a pending scroll of −1, `Draw`. -/
def f119bOps : List HOp :=
  [.op (.setCursor 3), .op (.draw 4 2), .items [1], .op (.pending (-1)), .op (.draw 4 2)]

/-- F119b: without the walk back to an existing top widget the last draw panics … -/
theorem shrunk_scrollup_panics_unfixed :
    panics (runH ⟨true, true, false, true, true, true⟩ ⟨0, false⟩ [1, 1, 1, 1] init f119bOps) = true := by decide

/-- … with it the list shows its only item at row 0 (top = 0, offset 0). -/
theorem shrunk_scrollup_ok_fixed :
    (match runH Facts.fixed ⟨0, false⟩ [1, 1, 1, 1] init f119bOps with
     | .ok (_, s) => s.top == 0 && s.offset == 0
     | .error _ => false) = true := by decide

/-- F119c: gap 1, two items of height 1, viewport 1: after moving to the second item and scrolling
    back up by 2, the code before the repair drew the two children at rows 0 and 1 — no gap. -/
theorem gap_ignored_on_scroll_up_unfixed :
    (match run ⟨true, true, true, false, true, true⟩ ⟨1, false⟩ [1, 1] init [.next, .draw 4 1, .pending (-2)] with
     | .ok s => (match draw ⟨true, true, true, false, true, true⟩ ⟨1, false⟩ [1, 1] s 4 1 with
        | .ok (_, cs) => cs.map (fun c => (c.idx, c.row, c.height)) == [(0, 0, 1), (1, 1, 1)]
        | .error _ => false)
     | .error _ => false) = true := by decide

/-- … the repaired code draws them at rows 0 and 2. -/
theorem gap_kept_on_scroll_up_fixed :
    (match run Facts.fixed ⟨1, false⟩ [1, 1] init [.next, .draw 4 1, .pending (-2)] with
     | .ok s => (match draw Facts.fixed ⟨1, false⟩ [1, 1] s 4 1 with
        | .ok (_, cs) => cs.map (fun c => (c.idx, c.row, c.height)) == [(0, 0, 1), (1, 2, 1)]
        | .error _ => false)
     | .error _ => false) = true := by decide

/-- The state of the previous witness before its last draw. -/
def s0 : St := { cursor := 1, top := 1, offset := 0, pending := -2, wantsCursor := false }

theorem s0_reached : run ⟨true, true, true, false, true, true⟩ ⟨1, false⟩ [1, 1] init [.next, .draw 4 1, .pending (-2)] = .ok s0 := by rfl

theorem s0_draw : draw ⟨true, true, true, false, true, true⟩ ⟨1, false⟩ [1, 1] s0 4 1
    = .ok ({ s0 with top := 0, pending := 0 }, [⟨0, 0, 1⟩, ⟨1, 1, 1⟩]) := by rfl

/-- Hence the layout statement for all gaps (`Props.C19.dyn_layout`) was false of the code before
    repair F119c. -/
theorem dyn_layout_fails_unfixed :
    ¬ ∀ (cfg : Cfg) (hs : List Nat) (s : St) (W H : Nat) (s' : St) (cs : List Child), s.top < U →
      draw ⟨true, true, true, false, true, true⟩ cfg hs s W H = .ok (s', cs) → Contig cfg.gap cs ∧ Heights hs cs := by
  intro h
  have := (h ⟨1, false⟩ [1, 1] s0 4 1 _ _ (by decide) s0_draw).1
  have h2 : (1 : Int) = 0 + ((1 : Nat) : Int) + 1 := this.1.2
  omega

/-- F119f: heights 1,1,5,2.  `SetCursor(3); Draw(H=2); SetPendingScroll(-2); Draw(H=5); SetCursor(2);
    Draw(H=5)`: without the stop condition the top is left at item 1 with the offset (3) measured in
    item 2, and the selected item 2 — which fits the viewport — is drawn at rows −2…2 (the wants-cursor
    block of that time, `revealAbove = false`, did not move it). -/
def f119fOps : List Op := [.setCursor 3, .draw 4 2, .pending (-2), .draw 4 5, .setCursor 2]

theorem insert_top_off_by_one_hides_selection :
    (match run ⟨true, false, true, true, false, true⟩ ⟨0, false⟩ [1, 1, 5, 2] init f119fOps with
     | .ok s => (match draw ⟨true, false, true, true, false, true⟩ ⟨0, false⟩ [1, 1, 5, 2] s 4 5 with
        | .ok (_, cs) => cs.map (fun c => (c.idx, c.row, c.height)) == [(1, -3, 1), (2, -2, 5), (3, 3, 2)]
        | .error _ => false)
     | .error _ => false) = true := by decide

/-- … with it the selected item is drawn at rows 0…4. -/
theorem insert_top_fixed_shows_selection :
    (match run Facts.fixed ⟨0, false⟩ [1, 1, 5, 2] init f119fOps with
     | .ok s => (match draw Facts.fixed ⟨0, false⟩ [1, 1, 5, 2] s 4 5 with
        | .ok (_, cs) => cs.map (fun c => (c.idx, c.row, c.height)) == [(2, 0, 5)]
        | .error _ => false)
     | .error _ => false) = true := by decide

/-- F119d: heights 1,1,1,9,1, `SetCursor(3); Draw(H=2)` leaves top = 3 with offset 7 inside the 9-row
    item; the builder then returns heights 1,1,1,2,1 (item 3 shrank to 2 rows).  `NextItem; Draw(H=2)`. -/
def f119dOps : List HOp := [.op (.setCursor 3), .op (.draw 4 2), .items [1, 1, 1, 2, 1], .op .next]

/-- Before the repair: item 3 at row −7 and the selected item 4 at row −5; nothing covers row 0, the
    state is never re-anchored and the selection stays invisible. -/
theorem stale_offset_hides_selection_unfixed :
    (match runH ⟨true, true, true, true, false, true⟩ ⟨0, false⟩ [1, 1, 1, 9, 1] init f119dOps with
     | .ok (hs, s1) => (match draw ⟨true, true, true, true, false, true⟩ ⟨0, false⟩ hs s1 4 2 with
        | .ok (s2, cs) => cs.map (fun c => (c.idx, c.row, c.height)) == [(3, -7, 2), (4, -5, 1)]
            && s2.top == 3 && s2.offset == 7
        | .error _ => false)
     | .error _ => false) = true := by decide

/-- After the repair: the selected item 4 is brought to row 0 and the state re-anchored on it. -/
theorem stale_offset_shows_selection_fixed :
    (match runH Facts.fixed ⟨0, false⟩ [1, 1, 1, 9, 1] init f119dOps with
     | .ok (hs, s1) => (match draw Facts.fixed ⟨0, false⟩ hs s1 4 2 with
        | .ok (s2, cs) => cs.map (fun c => (c.idx, c.row, c.height)) == [(3, -2, 2), (4, 0, 1)]
            && s2.top == 4 && s2.offset == 0
        | .error _ => false)
     | .error _ => false) = true := by decide

/-- F119g (fixed, /repo ee95cee): one item of height 1, viewport 1: a wheel-down (pending scroll 3)
    and then `SetCursor(0)`: before the repair `ensureScroll` kept the pending scroll, and the `Draw`
    that follows the selection change put the selected item at row −3 — outside the viewport. -/
theorem pending_scroll_hides_selection_unfixed :
    (match draw Facts.fixed ⟨0, false⟩ [1] (ensureScrollUnfixed { (wheelDown init).1 with cursor := 0 }) 4 1 with
     | .ok (_, cs) => cs.map (fun c => (c.idx, c.row, c.height)) == [(0, -3, 1)]
     | .error _ => false) = true := by decide

/-- … after it the item is at row 0. -/
theorem pending_scroll_dropped_fixed :
    (match draw Facts.fixed ⟨0, false⟩ [1] (setCursor (wheelDown init).1 0) 4 1 with
     | .ok (_, cs) => cs.map (fun c => (c.idx, c.row, c.height)) == [(0, 0, 1)]
     | .error _ => false) = true := by decide

/-- F119h (fixed, /repo 81f1850): the empty list, `SetCursor(uint(len(items)-1))` = 2^64−1, `Draw`:
    before the repair the wants-cursor block computed `int(idx)` = −1 `< len` = 0 and indexed
    `s.Children[2^64−1]` — a panic … -/
theorem huge_cursor_panics_unfixed :
    panics (run ⟨true, true, true, true, true, false⟩ ⟨0, false⟩ [] init [.setCursor (2 ^ 64 - 1), .draw 4 2]) = true := by
  decide

/-- … with the index compared as a `uint` it does not (also with two items and the cursor gutter). -/
theorem huge_cursor_ok_fixed :
    panics (run Facts.fixed ⟨0, false⟩ [] init [.setCursor (2 ^ 64 - 1), .draw 4 2]) = false ∧
    panics (run Facts.fixed ⟨0, true⟩ [1, 1] init [.setCursor (2 ^ 63), .draw 4 2, .next, .draw 4 2]) = false := by
  decide

end VaxisModel.Witness.F119
