import VaxisModel.Model.DynList
import VaxisModel.Lemmas.DynList

/-! Findings in vxfw/list `Dynamic` (replayed on the real code from /verif/corpus/C19/F119*.ops).

* F119  (fixed, /repo 5b2dab9): cursor gutter indexes the children with a wrapped `cursor - top`.
* F119b (recorded): items replaced by fewer than `top`, then an upward scroll: `Children[len-1]` of
  an empty list.
* F119c (recorded): children inserted above the top ignore a non-zero gap.
* F119d (recorded): the builder's content shrinks below the scroll offset: the state is never re-anchored.
* F119f (fixed): `insertChildren` left `scroll.top` one below the first inserted widget. -/
namespace VaxisModel.Witness.F119
open VaxisModel.Model.DynList VaxisModel.Lemmas.DynList

def panics {α} (r : Except Panic α) : Bool := match r with | .error _ => true | .ok _ => false

/-- F119: DrawCursor, three items, wheel down, two draws — without the guard the second panics. -/
theorem gutter_panics_unguarded :
    panics (run ⟨false, true⟩ ⟨0, true⟩ [3, 1, 2] init [.wheelDown, .draw 4 1, .draw 4 1]) = true := by decide

/-- … and with the guard it does not. -/
theorem gutter_ok_guarded :
    panics (run ⟨true, true⟩ ⟨0, true⟩ [3, 1, 2] init [.wheelDown, .draw 4 1, .draw 4 1]) = false := by decide

/-- F119b: the state reached by `SetCursor(3); Draw` on four items of height 1 in a 2-row viewport is
    top = 2; with the items replaced by a single one, a pending scroll of −1 panics. -/
theorem shrunk_scrollup_panics :
    (match run ⟨true, true⟩ ⟨0, false⟩ [1, 1, 1, 1] init [.setCursor 3, .draw 4 2] with
     | .ok s => panics (run ⟨true, true⟩ ⟨0, false⟩ [1] s [.pending (-1), .draw 4 2])
     | .error _ => false) = true := by decide

/-- F119c: gap 1, two items of height 1, viewport 1: after moving to the second item and scrolling
    back up by 2 the two children are drawn at rows 0 and 1 — no gap between them. -/
theorem gap_ignored_on_scroll_up :
    (match run ⟨true, true⟩ ⟨1, false⟩ [1, 1] init [.next, .draw 4 1, .pending (-2)] with
     | .ok s => (match draw ⟨true, true⟩ ⟨1, false⟩ [1, 1] s 4 1 with
        | .ok (_, cs) => cs.map (fun c => (c.idx, c.row, c.height)) == [(0, 0, 1), (1, 1, 1)]
        | .error _ => false)
     | .error _ => false) = true := by decide

/-- The state of the previous witness before its last draw. -/
def s0 : St := { cursor := 1, top := 1, offset := 0, pending := -2, wantsCursor := false }

theorem s0_reached : run ⟨true, true⟩ ⟨1, false⟩ [1, 1] init [.next, .draw 4 1, .pending (-2)] = .ok s0 := by rfl

theorem s0_draw : draw ⟨true, true⟩ ⟨1, false⟩ [1, 1] s0 4 1
    = .ok ({ s0 with top := 0, pending := 0 }, [⟨0, 0, 1⟩, ⟨1, 1, 1⟩]) := by rfl

/-- Hence the full layout statement (all gaps) is false of the code. -/
theorem dyn_layout_full_fails :
    ¬ ∀ (cfg : Cfg) (hs : List Nat) (s : St) (W H : Nat) (s' : St) (cs : List Child), s.top < U →
      draw ⟨true, true⟩ cfg hs s W H = .ok (s', cs) → Contig cfg.gap cs ∧ Heights hs cs := by
  intro h
  have := (h ⟨1, false⟩ [1, 1] s0 4 1 _ _ (by decide) s0_draw).1
  have h2 : (1 : Int) = 0 + ((1 : Nat) : Int) + 1 := this.1.2
  omega

/-- F119f: heights 1,1,5,2.  `SetCursor(3); Draw(H=2); SetPendingScroll(-2); Draw(H=5); SetCursor(2);
    Draw(H=5)`: without the stop condition the top is left at item 1 with the offset (3) measured in
    item 2, and the selected item 2 — which fits the viewport — is drawn at rows −2…2. -/
def f119fOps : List Op := [.setCursor 3, .draw 4 2, .pending (-2), .draw 4 5, .setCursor 2]

theorem insert_top_off_by_one_hides_selection :
    (match run ⟨true, false⟩ ⟨0, false⟩ [1, 1, 5, 2] init f119fOps with
     | .ok s => (match draw ⟨true, false⟩ ⟨0, false⟩ [1, 1, 5, 2] s 4 5 with
        | .ok (_, cs) => cs.map (fun c => (c.idx, c.row, c.height)) == [(1, -3, 1), (2, -2, 5), (3, 3, 2)]
        | .error _ => false)
     | .error _ => false) = true := by decide

/-- … with it the selected item is drawn at rows 0…4. -/
theorem insert_top_fixed_shows_selection :
    (match run ⟨true, true⟩ ⟨0, false⟩ [1, 1, 5, 2] init f119fOps with
     | .ok s => (match draw ⟨true, true⟩ ⟨0, false⟩ [1, 1, 5, 2] s 4 5 with
        | .ok (_, cs) => cs.map (fun c => (c.idx, c.row, c.height)) == [(2, 0, 5)]
        | .error _ => false)
     | .error _ => false) = true := by decide

/-- F119d (recorded): heights 1,1,1,9,1, `SetCursor(3); Draw(H=2)` leaves top = 3 with offset 7 inside
    the 9-row item; the builder then returns heights 1,1,1,2,1 (item 3 shrank to 2 rows).  `NextItem;
    Draw(H=2)` draws item 3 at row −7 and the selected item 4 at row −5: nothing covers row 0, the
    state is never re-anchored and the selection stays invisible. -/
theorem stale_offset_hides_selection :
    (match run ⟨true, true⟩ ⟨0, false⟩ [1, 1, 1, 9, 1] init [.setCursor 3, .draw 4 2] with
     | .ok s => (match run ⟨true, true⟩ ⟨0, false⟩ [1, 1, 1, 2, 1] s [.next] with
        | .ok s1 => (match draw ⟨true, true⟩ ⟨0, false⟩ [1, 1, 1, 2, 1] s1 4 2 with
          | .ok (s2, cs) => cs.map (fun c => (c.idx, c.row, c.height)) == [(3, -7, 2), (4, -5, 1)]
              && s2.top == 3 && s2.offset == 7
          | .error _ => false)
        | .error _ => false)
     | .error _ => false) = true := by decide

end VaxisModel.Witness.F119
