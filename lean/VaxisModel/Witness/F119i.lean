import VaxisModel.Model.DynList
import VaxisModel.Model.DynGenBodies
import VaxisModel.Props.C19Exec
import VaxisModel.Lemmas.DynExecProgress

/-! F119i (observation, recorded — not a violation of a clause of C19 for any FINITE item count):
`Dynamic.Draw` stops its downward loop only when the accumulated height reaches the viewport height or the
Builder returns nil.  Widgets of height 0 with gap 0 make no progress, so `Draw` asks the Builder for EVERY
remaining item and returns all of them as children, whatever the viewport: the work (and the memory) of one
frame is linear in the number of items, not in the viewport — `text.New("")` is such a widget (measured on
the real code: 2 000 000 empty items, viewport 10x4: 2 000 001 Builder calls, 2 000 000 children, 2.6 s per
frame) — and a Builder that never returns nil (the API has no length) makes `Draw` loop forever: in the
interpreter of the regenerated body the fuel runs out, for whatever fuel. -/
namespace VaxisModel.Witness.F119i
open VaxisModel.Model VaxisModel.Model.DynList VaxisModel.Model.DynExec

theorem drawDown_zero (H : Int) (hH : H ≥ 1) : ∀ (n i : Nat) (acc : List Child),
    (drawDown 0 false 0 H (List.replicate n 0) i 0 acc).length = acc.length + n := by
  intro n
  induction n with
  | zero => intro i acc; simp [drawDown]
  | succ n ih =>
    intro i acc
    have h1 : ¬ ((0 : Int) + ((0 : Nat) : Int) + 0 ≥ H) := by omega
    have h0 : ((0 : Int) + ((0 : Nat) : Int) + 0) = 0 := by simp
    simp only [List.replicate_succ, drawDown, Bool.false_eq_true, false_and, ↓reduceIte, h1]
    rw [h0, ih]
    simp only [List.length_append, List.length_cons, List.length_nil]
    omega

/-- **One frame draws every item**: `n` widgets of height 0, gap 0, any viewport of at least one row —
    `Draw` (the model; by `Props.C19Exec.draw_body_eq_model` also the regenerated body, interpreted)
    returns `n` children: unbounded in the viewport. -/
theorem zero_heights_draw_all (n W H : Nat) (hH : 1 ≤ H) (h1 : H ≠ 65535) (h2 : W ≠ 65535) :
    (match draw Facts.fixed ⟨0, false⟩ (List.replicate n 0) init W H with
     | .ok (_, cs) => cs.length = n
     | .error _ => False) := by
  have hd := drawDown_zero (H : Int) (by omega) n 0 []
  simp only [List.length_nil, Nat.zero_add] at hd
  simp [draw, Facts.fixed, clampTop, clampLoop, prologue, init, scrollUp, gutter, reveal, h1, h2]
  exact hd

/-- **An endless Builder of zero-height widgets: `Draw` never returns** — the regenerated body of `Draw`,
    interpreted, with a Builder that returns a widget of height 0 for every index, gap 0, any viewport of
    at least one row: out of fuel for EVERY fuel (each iteration of the downward loop adds a child at row
    0, the accumulated height stays 0 < `ctx.Max.Height`, the Builder never returns nil). -/
theorem endless_builder_never_returns (W H F : Nat) (hH : 1 ≤ H) (h1 : H ≠ 65535) (h2 : W ≠ 65535) :
    runDraw genBodies (fun _ => some 0) ⟨0, false⟩ init W H F = .error .oof := by
  rw [Props.C19Exec.gen_bodies_parsed]
  exact Lemmas.DynExec.draw_hang W H F hH h1 h2

/-- The interpreter of the regenerated `Draw` on a Builder that always returns a widget of height 0:
    out of fuel (= the Go code is still looping) — here after 400 iterations. -/
theorem endless_builder_out_of_fuel :
    (match runDraw genBodies (fun _ => some 0) ⟨0, false⟩ init 10 4 400 with
     | .error .oof => true
     | _ => false) = true := by decide +kernel

/-- … while a Builder of 5 such widgets ends (6 units of fuel) with all 5 as children. -/
theorem five_zero_heights_end :
    (match runDraw genBodies (builder [0, 0, 0, 0, 0]) ⟨0, false⟩ init 10 4 8 with
     | .ok (_, cs) => cs.length == 5
     | _ => false) = true := by decide +kernel

theorem drawDown_zero_then (H : Int) (hH : H ≥ 1) (h : Nat) : ∀ (k i : Nat) (acc : List Child),
    { idx := i + k, row := 0, height := h } ∈ drawDown 0 false 0 H (List.replicate k 0 ++ [h]) i 0 acc := by
  intro k
  induction k with
  | zero =>
    intro i acc
    simp only [List.replicate_zero, List.nil_append, drawDown, Bool.false_eq_true, false_and, ↓reduceIte, Nat.add_zero]
    split <;> simp
  | succ k ih =>
    intro i acc
    have h1 : ¬ ((0 : Int) + ((0 : Nat) : Int) + 0 ≥ H) := by omega
    have h0 : ((0 : Int) + ((0 : Nat) : Int) + 0) = 0 := by simp
    simp only [List.replicate_succ, List.cons_append, drawDown, Bool.false_eq_true, false_and, ↓reduceIte, h1]
    rw [h0]
    have := ih (i + 1) (acc ++ [{ idx := i, row := 0, height := 0 }])
    rwa [Nat.add_assoc, Nat.add_comm 1 k] at this

/-- **Why a cap on zero-progress iterations is not a repair**: `k` widgets of height 0 followed by a widget of
    height `h`, gap 0, viewport of at least one row: `Draw` shows the widget of height `h` at row 0 — for EVERY `k`.
    A downward loop that gave up after any fixed number `N` of iterations without progress would lose it for
    `k > N` although it is the first thing visible in the viewport (and, nothing covering row 0 before it, the
    scroll position would not advance to reach it either). -/
theorem zero_heights_then_content (k h W H : Nat) (hH : 1 ≤ H) (h1 : H ≠ 65535) (h2 : W ≠ 65535) :
    (match draw Facts.fixed ⟨0, false⟩ (List.replicate k 0 ++ [h]) init W H with
     | .ok (_, cs) => { idx := k, row := 0, height := h } ∈ cs
     | .error _ => False) := by
  have hd := drawDown_zero_then (H : Int) (by omega) h k 0 []
  simp only [Nat.zero_add] at hd
  simp [draw, Facts.fixed, clampTop, clampLoop, prologue, init, scrollUp, gutter, reveal, h1, h2]
  exact hd

/-- **The hang needs zero progress: an endless Builder whose widgets make progress is drawn in one bounded frame.**
    ANY Builder that never returns nil (no item count at all) whose widgets all satisfy `height + gap ≥ 1` (heights
    bounded by some `Mx`), any gap, with or without the cursor gutter, any viewport: `Draw` from the initial state, executed
    from the regenerated body with `H + Mx + 3` units of loop fuel, RETURNS, with at most `max 1 H` children — the
    downward loop stops as soon as the viewport is full.  Together with `endless_builder_never_returns`: `Draw` fails to
    return only when the Builder is endless AND its widgets add no height. -/
theorem endless_builder_with_progress_returns (b : Nat → Option Nat) (cfg : Cfg) (W H F Mx : Nat)
    (hb : ∀ i, ∃ h, b i = some h ∧ h ≤ Mx ∧ 1 ≤ (h : Int) + cfg.gap)
    (h1 : H < 65535) (h2 : W ≠ 65535) (hF : H + Mx + 3 ≤ F) :
    ∃ st cs, runDraw genBodies b cfg init W H F = .ok (st, cs) ∧ cs.length ≤ max H 1 := by
  rw [Props.C19Exec.gen_bodies_parsed]
  exact Lemmas.DynExec.draw_progress b cfg W H F Mx hb h1 h2 hF

/-- **… from any state in which no upward scroll is due** (`offset + pending ≥ 0`: reachable by any history of selection
    changes, downward wheel events and draws; upward scrolls consult the Builder only below the top widget, which the
    finite-builder theorems cover): the executed `Draw` returns with at most `max 1 k` children,
    `k = max (H + offset + pending) (cursor + 1 − top)` — the rows to fill and the distance to a cursor still to be reached. -/
theorem endless_builder_with_progress_returns_any_state (b : Nat → Option Nat) (cfg : Cfg) (s : St) (W H F Mx : Nat)
    (hb : ∀ i, ∃ h, b i = some h ∧ h ≤ Mx ∧ 1 ≤ (h : Int) + cfg.gap)
    (h1 : H < 65535) (h2 : W ≠ 65535) (hno : 0 ≤ s.offset + s.pending)
    (hF : max (H + (s.offset + s.pending).toNat) (s.cursor + 1 - s.top) + H + Mx + 3 ≤ F)
    (hidx : s.top + max (H + (s.offset + s.pending).toNat) (s.cursor + 1 - s.top) + 1 < 2 ^ 64) :
    ∃ st cs, runDraw genBodies b cfg s W H F = .ok (st, cs) ∧
      cs.length ≤ max (max (H + (s.offset + s.pending).toNat) (s.cursor + 1 - s.top)) 1 := by
  have hp : (prologue s).1 = - (s.offset + s.pending) := by
    unfold prologue
    have : ¬ (- (s.offset + s.pending) > 0 ∧ s.top = 0) := by omega
    simp only [this, if_false]
  have hk : ((H : Int) - (prologue s).1).toNat = H + (s.offset + s.pending).toNat := by rw [hp]; omega
  rw [Props.C19Exec.gen_bodies_parsed]
  have := Lemmas.DynExec.draw_progress2 b cfg s W H F Mx hb h1 h2 (by rw [hp]; omega) (by rw [hk]; exact hF) (by rw [hk]; exact hidx)
  rw [hk] at this
  exact this

/-- Non-vacuity: an endless list of one-row widgets, viewport 10 × 4: four children. -/
example : (match runDraw genBodies (fun _ => some 1) ⟨0, false⟩ init 10 4 8 with
     | .ok (_, cs) => cs.length == 4
     | _ => false) = true := by decide +kernel

example : ∀ i : Nat, ∃ h : Nat, (fun _ : Nat => some (1 : Nat)) i = some h ∧ h ≤ 1 ∧ 1 ≤ (h : Int) + (⟨0, false⟩ : Cfg).gap :=
  fun _ => ⟨1, rfl, by omega, by decide⟩

end VaxisModel.Witness.F119i
