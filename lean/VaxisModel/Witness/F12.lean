import VaxisModel.Model.InputLoop
import VaxisModel.Lemmas.InputLoop

/-! F12 (fixed in /repo: `chCursorPos` buffered, non-blocking hand-off, stale answer dropped by the
next call): with the hand-off written as before the repair — bare send on an unbuffered channel
(`Kinds.original`, `cursorCap := 0`, no drain) — `CursorPosition()` can time out after
`handleSequence` has consumed the request flag but before it sends.  The requester is gone, the
send can never complete, and the input goroutine never returns to its `select`.  With the current
source's parameters the same schedule is harmless (`Props.C03.never_wedges` and its example). -/
namespace VaxisModel.Witness.F12
open VaxisModel.Model.Input VaxisModel.Model.InputLoop VaxisModel.Lemmas.InputLoop

def P : Params := { qcap := 1024, kinds := Kinds.original, b64 := fun _ => none, cursorCap := 0, cursorDrain := false }

def cpr : Seq := .csi [] [[3], [7]] (ch 'R')

/-- The witness run, with the hand-off of the source before the repair. -/
def witness : List Label := [.cursorCall, .input cpr, .cursorTimeout]

theorem reaches_stuck_state :
    (match run P {} witness with
     | some s => s.pend == [.sendCursorPos 3 7] && !s.cursorWaiting && (blockedOn P s == some "chCursorPos")
     | none => false) = true := by decide

theorem witness_reachable : ∃ s, Reachable P {} s ∧ s.pend = [.sendCursorPos 3 7] ∧ s.cursorWaiting = false := by
  have h1 : next P {} .cursorCall = some (.ok { vs := { reqCursorPos := true }, cursorWaiting := true }) := by rfl
  have h2 : next P { vs := { reqCursorPos := true }, cursorWaiting := true } (.input cpr)
      = some (.ok { vs := { reqCursorPos := false }, cursorWaiting := true, pend := [.sendCursorPos 3 7] }) := by rfl
  have h3 : next P { vs := { reqCursorPos := false }, cursorWaiting := true, pend := [.sendCursorPos 3 7] } .cursorTimeout
      = some (.ok { vs := { reqCursorPos := false }, cursorWaiting := false, pend := [.sendCursorPos 3 7] }) := by rfl
  exact ⟨_, .step _ (.step _ (.step _ .init h1) h2) h3, rfl, rfl⟩

/-- From the stuck state no sequence of internal labels frees the goroutine. -/
theorem stuck_forever (s : Sys) (r c : Int) (hp : s.pend = [.sendCursorPos r c]) (hw : s.cursorWaiting = false) :
    ∀ ls s', (∀ l ∈ ls, l.internal = true) → run P s ls = some s' → s'.pend = [.sendCursorPos r c] := by
  intro ls
  induction ls generalizing s with
  | nil => intro s' _ h; simp [run] at h; subst h; exact hp
  | cons l t ih =>
    intro s' hi h
    have hl : l.internal = true := hi l (by simp)
    have ht : ∀ l ∈ t, l.internal = true := fun l hl => hi l (by simp [hl])
    cases l <;> simp [Label.internal] at hl
    · have hk : P.kinds.cursorPos = .blocking := by decide
      simp [run, next, hp, stepEffect, hw, P, Kinds.original] at h
    · simp [run, next, hp] at h
    · simp only [run, next] at h
      split at h
      · rename_i s1 heq
        split at heq
        · simp at heq
        · simp at heq; subst heq
          exact ih _ (by simpa using hp) (by simpa using hw) s' ht h
      · simp at h

/-- The full never-wedges statement was false of the code before the repair. -/
theorem never_wedges_fails :
    ¬ (∀ s, Reachable P {} s → ∃ ls s', (∀ l ∈ ls, l.internal = true) ∧ run P s ls = some s' ∧ s'.pend = []) := by
  intro hall
  obtain ⟨s, hr, hp, hw⟩ := witness_reachable
  obtain ⟨ls, s', hi, hrun, hidle⟩ := hall s hr
  have := stuck_forever s 3 7 hp hw ls s' hi hrun
  rw [hidle] at this
  exact absurd this (by simp)

end VaxisModel.Witness.F12
