/-
F120 (repaired, /repo 7b23fe1) — `KittyImage.Draw` had no size test: it recorded a placement of the image's
`k.w × k.h` cells at the window's origin even when the window was smaller, so the terminal drew the image over
cells outside the target window (`Sixel.Draw` refuses such an image: `if s.w > w || s.h > h { return }`, and the
`Image` interface documents "The image will not be drawn if it is larger than the window").  The property text
says "drawing an image touches only cells inside the target window".

The pre-repair gate list is kept here as a literal (`unfixedKittyGates`): with it the statement is false; with
the regenerated list it is `Props.C20Ext.kitty_placement_inside` / `placement_inside_window`.
Replayed on the real code by corpus/C20/F120.ops (now: the image is not placed).
-/
import VaxisModel.Props.C20Ext

namespace VaxisModel.Witness.F120
open VaxisModel.Model.ImageDraw VaxisModel.Model.Window VaxisModel.Gen.ImageConsts

/-- The leading `if … { return }` statements of `KittyImage.Draw` before the repair. -/
def unfixedKittyGates : List Gate := [.encoding]

/-- A 4×4-cell image drawn into a 2×2 window at (5,5) of a 10×10 screen: placed by the unrepaired code. -/
theorem kitty_placement_exceeds_window :
    drawnWith unfixedKittyGates true false 4 4 (Win.new (.root 0 0 10 10) 5 5 2 2) = true ∧
    ¬ placementInside 4 4 (Win.new (.root 0 0 10 10) 5 5 2 2) := by
  refine ⟨by decide, ?_⟩
  unfold placementInside
  decide

/-- "A drawn placement lies inside its window" fails for the unrepaired gate list … -/
theorem kitty_placement_inside_fails_unfixed :
    ¬ ∀ (kw kh : Int) (win : Win), drawnWith unfixedKittyGates true false kw kh win = true → placementInside kw kh win := by
  intro h
  exact kitty_placement_exceeds_window.2 (h 4 4 _ kitty_placement_exceeds_window.1)

/-- … and the current source refuses that placement, as the sixel gate always did. -/
theorem kitty_refuses_now : kittyDrawn 4 4 (Win.new (.root 0 0 10 10) 5 5 2 2) = false := by decide

theorem sixel_refuses : sixelDrawn 4 4 (Win.new (.root 0 0 10 10) 5 5 2 2) = false := by decide

end VaxisModel.Witness.F120
