/-
F120 — `KittyImage.Draw` has no size test: it records a placement of the image's `k.w × k.h` cells at the
window's origin even when the window is smaller, so the terminal draws the image over cells outside the target
window (`Sixel.Draw` refuses such an image: `if s.w > w || s.h > h { return }`).  The property text says "drawing
an image touches only cells inside the target window"; for kitty placements that holds only when the image was
resized to (at most) the window's size (`Props.C20Ext.kitty_placement_inside_partial`).
Replayed on the real code by corpus/C20/F120.ops; recorded as a known finding.
-/
import VaxisModel.Props.C20Ext

namespace VaxisModel.Witness.F120
open VaxisModel.Model.ImageDraw VaxisModel.Model.Window

/-- A 4×4-cell image drawn into a 2×2 window at (5,5) of a 10×10 screen. -/
theorem kitty_placement_exceeds_window :
    kittyDrawn 4 4 (Win.new (.root 0 0 10 10) 5 5 2 2) = true ∧
    ¬ placementInside 4 4 (Win.new (.root 0 0 10 10) 5 5 2 2) := by
  refine ⟨rfl, ?_⟩
  unfold placementInside
  decide

theorem kitty_placement_inside_full_fails : ¬ VaxisModel.Props.C20Ext.kitty_placement_inside_full := by
  intro h
  exact kitty_placement_exceeds_window.2 (h 4 4 _ kitty_placement_exceeds_window.1)

/-- The sixel gate refuses the same placement. -/
theorem sixel_refuses : sixelDrawn 4 4 (Win.new (.root 0 0 10 10) 5 5 2 2) = false := by decide

end VaxisModel.Witness.F120
