import VaxisModel.Lemmas.ConcShutdown

/-! F13 (**fixed**, /repo "fix: Suspend and Close no longer wait for a receiver of the parser's
channel"): `Close()` executed on the input goroutine itself (kill-signal arm of its `select`, or the
panic path) while two sequences are waiting in the parser's channel.  The parser needs a free slot to
deliver `EOF`; the only goroutine that used to free one was the one waiting for the parser, so `Close`
never returned.  `WaitClose` now discards what the parser still emits while it waits.  The schedule
that used to be stuck is kept (harness ops `sigclose`, `forced kind=sig`; corpus/C10/F13-sigclose.ops);
in the model it now continues to a final state.  The general statement — every maximal run ends with
every caller returned, from every invariant state, kill signals and `Close` on the input goroutine
included — is `Props.C10Shutdown.shutdown_completes`. -/
namespace VaxisModel.Witness.F13
open VaxisModel.Model.Conc VaxisModel.Lemmas.ConcShutdown

/-- The goroutine is busy with a first key (one post to go) while two more keys arrive. -/
def s0 : SSys := { inbuf := [some 1, some 1], ipc := .posting 1 }

/-- The schedule of the old witness. -/
def witness : List SLabel :=
  [.parser, .parser, .parser, .parser, .parser,    -- both keys parsed and queued in the channel (capacity 2)
   .signal,                                        -- SIGTERM
   .input .step, .input .step,                     -- the goroutine finishes its post and is back at the select
   .input .kill,                                   -- … which picks the signal arm: Close on this goroutine (caller 0)
   .caller 0, .caller 0, .caller 0, .caller 0, .caller 0,   -- flag, quit event, suspended, signal, DA1; now WaitClose
   .termReply, .parser]                            -- the parser (at its select) takes the close signal

/-- How it goes on now: `WaitClose` makes room, the parser delivers `EOF` and stops. -/
def continuation : List SLabel :=
  [.drain 0, .parser,                              -- a sequence discarded, EOF emitted
   .drain 0, .parser,                              -- channel closed, `closed` token sent
   .drain 0,                                       -- (the EOF is discarded too; taking `closed` first is equally possible)
   .caller 0, .caller 0]                           -- WaitClose returns; rest of Suspend, close(chQuit)

/-- The old witness still leads to the state that used to be stuck: the input goroutine's `Close`
waits in `WaitClose`, the parser wants to emit `EOF`, the channel is full, nobody else receives. -/
theorem reaches_old_stuck_state :
    (match srun s0 witness with
     | some s => s.callers == [{ pc := .waitClosed }] && s.ipc == .done && s.ppc == .emitEOF && s.seqs.length == 2 &&
                 (snext s (.drain 0)).isSome
     | none => false) = true := by decide

/-- … and from there `Close` returns: final state, `chQuit` closed once. -/
theorem close_returns :
    (match srun s0 (witness ++ continuation) with
     | some s => s.final && s.quitCloses == 1 && !s.panicked
     | none => false) = true := by decide

end VaxisModel.Witness.F13
