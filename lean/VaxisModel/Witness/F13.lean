import VaxisModel.Lemmas.ConcShutdown

/-! F13 (recorded): `Close()` executed on the input goroutine itself (kill-signal arm of its
`select`, or the panic path) while two sequences are waiting in the parser's channel.  The parser
needs a free slot to deliver `EOF`, the only goroutine that could free one is waiting for the
parser.  Replayed on the real code by the harness op `sigclose`. -/
namespace VaxisModel.Witness.F13
open VaxisModel.Model.Conc VaxisModel.Lemmas.ConcShutdown

/-- The goroutine is busy with a first key (one post to go) while two more keys arrive. -/
def s0 : SSys := { inbuf := [some 1, some 1], ipc := .posting 1 }

def witness : List SLabel :=
  [.parser, .parser, .parser, .parser, .parser,    -- both keys parsed and queued in the channel (capacity 2)
   .signal,                                        -- SIGTERM
   .inputStep, .inputStep,                         -- the goroutine finishes its post and is back at the select
   .inputKill,                                     -- … which picks the signal arm
   .inputStep, .inputStep, .inputStep, .inputStep, .inputStep,   -- Close on this goroutine: flag, quit event, suspended, signal, DA1; now WaitClose
   .termReply, .parser]                            -- the parser (at its select) takes the close signal

theorem reaches_stuck_state :
    (match srun s0 witness with
     | some s => s.stuck && !s.final && s.ipc == .closing .waitClosed && s.ppc == .emitEOF && s.seqs.length == 2
     | none => false) = true := by decide

theorem close_never_returns :
    ∃ s, srun s0 witness = some s ∧ s.final = false ∧
      ∀ l ls, l.internal = true → srun s (l :: ls) = none := by
  cases h : srun s0 witness with
  | none => exact absurd h (by decide)
  | some s =>
    have hs : s.stuck = true ∧ s.final = false := by
      have := reaches_stuck_state
      simp only [h] at this
      simp only [Bool.and_eq_true, Bool.not_eq_true'] at this
      exact ⟨this.1.1.1.1, this.1.1.1.2⟩
    exact ⟨s, rfl, hs.2, fun l ls hl => stuck_forever s hs.1 l ls hl⟩

end VaxisModel.Witness.F13
