import VaxisModel.Lemmas.EmuWitnessLib
/-! F15 (fixed by d96bec9): `CSI 0;0 H` moved the cursor to row −1, column −1; the next print
indexed the grid at −1 and panicked. Corpus: corpus/C05/F15-cup-zero.ops. -/
namespace VaxisModel.Witness.F15
open VaxisModel.Model.Emu VaxisModel.Lemmas.EmuWitness

def ops : List EOp := [csi1 72 [0, 0], pr [97]]
def before : Fixes := { Fixes.current with f15 := false }

/-- Before the repair the cursor leaves the screen … -/
theorem cup_zero_leaves_screen : breaksInv (play before 4 3 [csi1 72 [0, 0]]) 3 4 = true := by decide +kernel
/-- … and the next print panics. -/
theorem cup_zero_then_print_panics : panics (play before 4 3 ops) = true := by decide +kernel
/-- The code as it is now is fine on the same input. -/
theorem now_fine : fine (play Fixes.current 4 3 ops) 3 4 = true := by decide +kernel
end VaxisModel.Witness.F15
