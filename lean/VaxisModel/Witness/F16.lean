import VaxisModel.Lemmas.EmuWitnessLib
/-! F16 (fixed by c291254): insert mode + a wide glyph at column 0 read `line[-1]`. Corpus: corpus/C05/F16-irm-wide.ops. -/
namespace VaxisModel.Witness.F16
open VaxisModel.Model.Emu VaxisModel.Lemmas.EmuWitness

def ops : List EOp := [csi1 104 [4], pr [228, 184, 150] 2]
def before : Fixes := { Fixes.current with f16 := false }
theorem irm_wide_at_column_0_panics : panics (play before 4 3 ops) = true := by decide +kernel
theorem now_fine : fine (play Fixes.current 4 3 ops) 3 4 = true := by decide +kernel
end VaxisModel.Witness.F16
