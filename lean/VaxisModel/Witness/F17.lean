import VaxisModel.Lemmas.EmuWitnessLib
/-! F17 (fixed by 1a478d8): DECSTBM accepted a bottom margin below the screen (`CSI 1;99 r`) and a top margin of −1 (`CSI 0;2 r`); CUD then followed the margin out of the screen, SD indexed row −1. Corpus: corpus/C05/F17-*.ops. -/
namespace VaxisModel.Witness.F17
open VaxisModel.Model.Emu VaxisModel.Lemmas.EmuWitness

def before : Fixes := { Fixes.current with f17 := false }
theorem bottom_margin_outside : breaksInv (play before 4 3 [csi1 114 [1, 99]]) 3 4 = true := by decide +kernel
theorem cursor_follows_it : breaksInv (play before 4 3 [csi1 114 [1, 99], csi1 66 [99]]) 3 4 = true := by decide +kernel
theorem top_margin_minus_one_then_sd_panics : panics (play before 4 3 [csi1 114 [0, 2], csi1 84]) = true := by decide +kernel
theorem now_fine : fine (play Fixes.current 4 3 [csi1 114 [1, 99], csi1 66 [99], pr [97]]) 3 4 = true := by decide +kernel
theorem now_fine2 : fine (play Fixes.current 4 3 [csi1 114 [0, 2], csi1 84]) 3 4 = true := by decide +kernel
end VaxisModel.Witness.F17
