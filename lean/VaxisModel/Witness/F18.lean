import VaxisModel.Lemmas.EmuWitnessLib
/-! F18 (fixed by 5679380): CSI parameters were used unclamped. The parser's decimal accumulation overflows, so `CSI 18446744073709551615 B` arrives as −1: the cursor moves to row −1 and the next print panics; ICH with a negative count reads past the line; CNL with 2^63−1 iterates (practically) forever — that hang is in the corpus (corpus/C05/F18-cnl-hang.ops) and not replayed by `decide`, a 5000-fold smaller loop is. Corpus: corpus/C05/F18-*.ops. -/
namespace VaxisModel.Witness.F18
open VaxisModel.Model.Emu VaxisModel.Lemmas.EmuWitness

def before : Fixes := { Fixes.current with f18 := false }
theorem negative_cud_leaves_screen : breaksInv (play before 4 3 [csi1 66 [-1]]) 3 4 = true := by decide +kernel
theorem then_print_panics : panics (play before 4 3 [csi1 66 [-1], pr [97]]) = true := by decide +kernel
theorem negative_ich_panics : panics (play before 8 2 [csi1 64 [-1]]) = true := by decide +kernel
theorem now_fine : fine (play Fixes.current 4 3 [csi1 66 [-1], pr [97], csi1 64 [-1]]) 3 4 = true := by decide +kernel
/-- every parameter is brought into 0..65535 now -/
theorem clamp_range (n : Int) : 0 ≤ clampParam n ∧ clampParam n ≤ 65535 := by
  unfold clampParam maxParam; split <;> omega
end VaxisModel.Witness.F18
