import VaxisModel.Lemmas.EmuWitnessLib
/-! F19 (fixed by 3cec8c3): resize kept the old top margin and the saved cursors: after `CSI 3;5 r` a resize to 2 lines left top=2 > bottom=1; DECSC at (5,4), resize to 2×2, DECRC put the cursor outside the screen and the next print panicked. Corpus: corpus/C05/F19-*.ops. -/
namespace VaxisModel.Witness.F19
open VaxisModel.Model.Emu VaxisModel.Lemmas.EmuWitness

def before : Fixes := { Fixes.current with f19 := false }
theorem stale_top_margin : breaksInv (play before 4 5 [csi1 114 [3, 5], .resize 4 2]) 2 4 = true := by decide +kernel
theorem stale_saved_cursor : breaksInv (play before 4 5 [csi1 72 [5, 4], .esc [55], .resize 2 2, .esc [56]]) 2 2 = true := by decide +kernel
theorem then_print_panics : panics (play before 4 5 [csi1 72 [5, 4], .esc [55], .resize 2 2, .esc [56], pr [97]]) = true := by decide +kernel
theorem now_fine : fine (play Fixes.current 4 5 [csi1 114 [3, 5], .resize 4 2]) 2 4 = true := by decide +kernel
theorem now_fine2 : fine (play Fixes.current 4 5 [csi1 72 [5, 4], .esc [55], .resize 2 2, .esc [56], pr [97]]) 2 2 = true := by decide +kernel
end VaxisModel.Witness.F19
