import VaxisModel.Model.EmuEvents

/-! F20 (fixed in /repo by commit 2f4ad1d "fix: the embedded terminal's PTY goroutine could block
forever posting a third event to its own channel"): before the fix the PTY goroutine's loop had
no priority drain (`drainFirst := false`).  `vt.events` has capacity 2, `postEvent` is a plain
blocking send executed by the goroutine that is also the channel's only receiver.  If the main
`select` picks the parser arm three times in a row for event-raising sequences (three BELs:
`printf '\a\a\a'` in the child), the third send blocks forever: the terminal is frozen.  On the
real loop this happened in ≈15 % of runs with 3 bells and ≈75 % with 5 bells; replayed by
`corpus/C05Events/F20-three-bells.ops`.

This file proves that the *pre-fix* loop violates "events never stall" in the model, i.e. that the
statement proved in `Props/C05Events.lean` for `drainFirst = true` is false for
`drainFirst = false`. -/
namespace VaxisModel.Witness.F20
open VaxisModel.Model.EmuEvents

/-- Three bells. -/
def input : List Bool := [true, true, true]

/-- The main select picks the parser arm three times. -/
def witness : List Label := [.pickParser, .pickParser, .pickParser]

/-- The witness schedule is enabled all the way and ends blocked in `postEvent`, with two events
    in the channel, none delivered. -/
theorem reaches_stuck_state :
    (match run 2 false (init false input) witness with
     | some s => decide (stuck s) && s.occ == 2 && s.delivered == 0 && s.input.isEmpty
     | none => false) = true := by decide

theorem witness_run :
    run 2 false (init false input) witness = some ⟨[], 2, .blocked, 0⟩ := by decide

/-- From there nothing is enabled any more (for every label). -/
theorem stuck_has_no_successor :
    allLabels.all (fun l => (step 2 false ⟨[], 2, .blocked, 0⟩ l).isNone) = true := by decide

/-- The full statement of `events_never_stall`, for the loop without the priority drain and the
    capacity of the source, is false. -/
theorem events_never_stall_fails_without_drain :
    ¬ (∀ (input : List Bool) (ls : List Label) (s : Sys),
        run 2 false (init false input) ls = some s → ¬ stuck s) := by
  intro hall
  exact hall input witness _ witness_run (by decide)

/-- The same three bells do not stall the loop with the drain (same scheduler preference). -/
example : runWith 2 true parserFirst input = ⟨[], 0, .done, 3⟩ := by decide

/-- … and the parser-first scheduler reproduces the stall without it. -/
example : runWith 2 false parserFirst input = ⟨[], 2, .blocked, 0⟩ := by decide

end VaxisModel.Witness.F20
