/-
F209 — a lower-case letter WITHOUT an upper-case mapping (Go: `IsLower('ß')`, `ToUpper('ß') = 'ß'`; 830
such runes in Go's tables) pressed with no modifiers:

* legacy report: the byte(s) of the character → `Key{Keycode: 'ß', Text: "ß"}`;
* kitty report without the text field, `CSI 223 u` → `Key{Keycode: 'ß'}`.

The binding ('ß', Shift) matches the first event (rule 6 of `Key.Matches`: "Shift + lower-case key:
upper-case the key, drop Shift, compare with Text" — the upper case of 'ß' is 'ß' itself) but not the
second.  So the unmodified key press fires a Shift binding under one encoding only, and
`cross_protocol_char_plain` is false without its hypothesis "no lower-case rune upper-cases to c".
`latinUni` carries Go's values for 'ß' (and ASCII, 'é', 'É').
-/
import VaxisModel.Props.C09Uni

namespace VaxisModel.Witness.F209
open VaxisModel.Model.Key VaxisModel.Spec.KeyEnc VaxisModel.Spec.KeyEncUni VaxisModel.Gen.Keys

/-- `cross_protocol_char_plain` without the hypothesis `hnolow`. -/
def cross_protocol_char_plain_full : Prop :=
  ∀ (u : Uni) (c : Int) (f : Form),
    validRune c = true → c ≠ 127 → u.isUpper c = false → lookup2 (c, 117) functional = none →
    (f.withShifted = false ∧ f.withBase = false) → (f.withText = false → c ≠ 0xFFFD) →
    keyString u (decodeKey u (.print [c])) = keyString u (decodeKey u (kittySeq c 117 { key := c, text := [c] } f)) ∧
    ∀ b m, «matches» u (decodeKey u (.print [c])) b m =
           «matches» u (decodeKey u (kittySeq c 117 { key := c, text := [c] } f)) b m

/-- The model on the concrete instance: plain 'ß', legacy byte vs `CSI 223 u`, binding ('ß', Shift). -/
theorem eszett_differs :
    «matches» latinUni (decodeKey latinUni (.print [223])) 223 shiftBit = true ∧
    «matches» latinUni (decodeKey latinUni (kittySeq 223 117 { key := 223, text := [223] } {})) 223 shiftBit = false := by
  decide

/-- The same with the modifier field and the event type present (`CSI 223;1:1 u`). -/
theorem eszett_differs_with_mods :
    «matches» latinUni (decodeKey latinUni (kittySeq 223 117 { key := 223, text := [223] } { withMods := true, withEvent := true })) 223 shiftBit = false := by
  decide

/-- With the text field (`CSI 223;1;223 u`) both events match it: the difference is between a report
    with and one without text, whatever the protocol. -/
theorem eszett_same_with_text :
    «matches» latinUni (decodeKey latinUni (kittySeq 223 117 { key := 223, text := [223] } { withMods := true, withText := true })) 223 shiftBit = true := by
  decide

theorem cross_protocol_char_plain_full_fails : ¬ cross_protocol_char_plain_full := by
  intro h
  have h2 := (h latinUni 223 {} (by decide) (by decide) (by decide) (by decide +kernel) ⟨rfl, rfl⟩ (fun _ => by decide)).2 223 shiftBit
  rw [eszett_differs.1, eszett_differs.2] at h2
  cases h2

end VaxisModel.Witness.F209
