/-
F209 (FIXED in /repo: rule 6 of `Key.Matches` requires `ToUpper(key) != key`) — a lower-case letter WITHOUT an
upper-case mapping (Go: `IsLower('ß')`, `ToUpper('ß') = 'ß'`; 830 such runes in Go's tables) pressed with no
modifiers:

* legacy report: the byte(s) of the character → `Key{Keycode: 'ß', Text: "ß"}`;
* kitty report without the text field, `CSI 223 u` → `Key{Keycode: 'ß'}`.

Before the fix the binding ('ß', Shift) matched the first event (rule 6: "Shift + lower-case key: upper-case
the key, drop Shift, compare with Text" — the upper case of 'ß' is 'ß' itself) but not the second: an
unmodified key press fired a Shift binding, and under one encoding only.  This file now proves the
regression statements on the model of the fixed code (`eszett_*`: the Shift binding fires under neither
encoding), and that the remaining hypothesis of `cross_protocol_char_plain` ("no lower-case rune with an upper
case of its own upper-cases to c") cannot be dropped: `greekUni` carries Go's values for ᾀ (U+1F80, lower case)
and ᾈ (U+1F88, its title-case upper case, `IsUpper` false).  `latinUni` carries Go's values for 'ß'.
-/
import VaxisModel.Props.C09Uni

namespace VaxisModel.Witness.F209
open VaxisModel.Model.Key VaxisModel.Spec.KeyEnc VaxisModel.Spec.KeyEncUni VaxisModel.Gen.Keys

/-- `cross_protocol_char_plain` without the hypothesis `hnolow`. -/
def cross_protocol_char_plain_full : Prop :=
  ∀ (u : Uni) (c : Int) (f : Form),
    validRune c = true → c ≠ 127 → u.isUpper c = false → lookup2 (c, 117) functional = none →
    (f.withShifted = false ∧ f.withBase = false) → (f.withText = false → c ≠ 0xFFFD) →
    keyString u (decodeKey u (.print [c])) = keyString u (decodeKey u (kittySeq c 117 { key := c, text := [c] } f)) ∧
    ∀ b m, «matches» u (decodeKey u (.print [c])) b m =
           «matches» u (decodeKey u (kittySeq c 117 { key := c, text := [c] } f)) b m

/-- Plain 'ß', legacy byte vs `CSI 223 u`, binding ('ß', Shift): fires under neither encoding (before the
    fix: `true` for the legacy event). -/
theorem eszett_same :
    «matches» latinUni (decodeKey latinUni (.print [223])) 223 shiftBit = false ∧
    «matches» latinUni (decodeKey latinUni (kittySeq 223 117 { key := 223, text := [223] } {})) 223 shiftBit = false := by
  decide

/-- The same with the modifier field and the event type present (`CSI 223;1:1 u`). -/
theorem eszett_same_with_mods :
    «matches» latinUni (decodeKey latinUni (kittySeq 223 117 { key := 223, text := [223] } { withMods := true, withEvent := true })) 223 shiftBit = false := by
  decide

/-- And with the text field (`CSI 223;1;223 u`). -/
theorem eszett_same_with_text :
    «matches» latinUni (decodeKey latinUni (kittySeq 223 117 { key := 223, text := [223] } { withMods := true, withText := true })) 223 shiftBit = false := by
  decide

/-- ASCII plus ᾀ (8064, lower case, upper case ᾈ) and ᾈ (8072, title case: neither upper nor lower). -/
def greekUni : Uni where
  isUpper r := asciiUni.isUpper r
  isLower r := asciiUni.isLower r || decide (r = 8064)
  isLetter r := asciiUni.isLetter r || decide (r = 8064) || decide (r = 8072)
  isGraphic r := asciiUni.isGraphic r || decide (r = 8064) || decide (r = 8072)
  isPrint r := asciiUni.isPrint r || decide (r = 8064) || decide (r = 8072)
  toUpper r := if r = 8064 then 8072 else asciiUni.toUpper r
  toLower r := if r = 8072 then 8064 else asciiUni.toLower r
  foldEq a b := asciiUni.foldEq a b || decide (a = 8064 ∧ b = 8072) || decide (a = 8072 ∧ b = 8064)

/-- The character ᾈ as a "key": the binding (ᾀ, Shift) matches its legacy event (text ᾈ) only. -/
theorem titlecase_differs :
    «matches» greekUni (decodeKey greekUni (.print [8072])) 8064 shiftBit = true ∧
    «matches» greekUni (decodeKey greekUni (kittySeq 8072 117 { key := 8072, text := [8072] } {})) 8064 shiftBit = false := by
  decide

theorem cross_protocol_char_plain_full_fails : ¬ cross_protocol_char_plain_full := by
  intro h
  have h2 := (h greekUni 8072 {} (by decide) (by decide) (by decide) (by decide +kernel) ⟨rfl, rfl⟩ (fun _ => by decide)).2 8064 shiftBit
  rw [titlecase_differs.1, titlecase_differs.2] at h2
  cases h2

end VaxisModel.Witness.F209
