import VaxisModel.Lemmas.EmuWitnessLib
/-! F21 (C06, fixed by 054ce86): ICH inserted default-style spaces instead of blanks with the current background, and never blanked the last column. Corpus: corpus/C06/F21-*.ops. -/
namespace VaxisModel.Witness.F21
open VaxisModel.Model.Emu VaxisModel.Lemmas.EmuWitness

def before : Fixes := { Fixes.current with f21 := false }
def opsBg : List EOp := [pr [97], pr [98], csi1 72 [1, 1], csi1 109 [41], csi1 64]
def opsLast : List EOp := [pr [97], pr [98], csi1 72 [1, 2], csi1 64]
theorem ich_ignores_background : disagrees before 3 2 opsBg = true := by decide +kernel
theorem ich_skips_last_column : disagrees before 2 2 opsLast = true := by decide +kernel
theorem now_agrees : agrees Fixes.current 3 2 opsBg = true ∧ agrees Fixes.current 2 2 opsLast = true := by decide +kernel
end VaxisModel.Witness.F21
