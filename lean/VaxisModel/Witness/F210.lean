/-
F210 — Shift + a letter key whose shifted character is NOT `unicode.ToUpper` of the key (Turkish
layout: the key 'i' produces 'İ' U+0130; also 'k' → Kelvin sign U+212A, 'ß' → 'ẞ' U+1E9E: each is
`IsUpper` with `ToLower` = the key, but `ToUpper(key)` is another rune):

* legacy report: the character 'İ' → `Key{Keycode: 'i', ShiftedCode: 'İ', Modifiers: Shift, Text: "İ"}`;
* kitty report with the shifted code and without the text field, `CSI 105:304;2 u` →
  `Key{Keycode: 'i', ShiftedCode: 'İ', Modifiers: Shift, Text: "I"}`: the Shift-text work-around at the
  end of `decodeKey` invents the text from `ToUpper(Keycode)` although the report says which
  character Shift produces.

Binding ('İ', Shift) matches the legacy event only, binding ('I', Shift) the kitty event only; the
events' `Text` differ ("İ" vs "I").  `cross_protocol_char_shift` is false without `htoup`.
-/
import VaxisModel.Props.C09Uni

namespace VaxisModel.Witness.F210
open VaxisModel.Model.Key VaxisModel.Spec.KeyEnc VaxisModel.Spec.KeyEncUni VaxisModel.Gen.Keys

/-- Go's values on ASCII and for 'İ' (U+0130): `IsUpper`, `ToLower('İ') = 'i'`, `ToUpper('i') = 'I'`. -/
def turkUni : Uni where
  isUpper r := asciiUni.isUpper r || decide (r = 304)
  isLower r := asciiUni.isLower r
  isLetter r := asciiUni.isLetter r || decide (r = 304)
  isGraphic r := asciiUni.isGraphic r || decide (r = 304)
  isPrint r := asciiUni.isPrint r || decide (r = 304)
  toUpper r := asciiUni.toUpper r
  toLower r := if r = 304 then 105 else asciiUni.toLower r
  foldEq a b := asciiUni.foldEq a b

/-- `cross_protocol_char_shift` without the hypothesis `htoup`. -/
def cross_protocol_char_shift_full : Prop :=
  ∀ (u : Uni) (c C : Int) (f : Form),
    validRune c = true → validRune C = true → c ≠ 127 → u.isUpper C = true → u.toLower C = c →
    lookup2 (c, 117) functional = none →
    (f.withShifted = true ∧ f.withBase = false ∧ f.hasMods = true) →
    (f.withText = false → u.isPrint c = true) →
    keyString u (decodeKey u (.print [C])) =
      keyString u (decodeKey u (kittySeq c 117 { key := c, mods := shiftBit, shifted := C, text := [C] } f)) ∧
    ∀ b m, «matches» u (decodeKey u (.print [C])) b m =
           «matches» u (decodeKey u (kittySeq c 117 { key := c, mods := shiftBit, shifted := C, text := [C] } f)) b m

def kittyForm : Form := { withShifted := true, withMods := true }

theorem dotted_I_text_differs :
    (decodeKey turkUni (.print [304])).text = [304] ∧
    (decodeKey turkUni (kittySeq 105 117 { key := 105, mods := shiftBit, shifted := 304, text := [304] } kittyForm)).text = [73] := by
  decide

theorem dotted_I_differs :
    «matches» turkUni (decodeKey turkUni (.print [304])) 304 shiftBit = true ∧
    «matches» turkUni (decodeKey turkUni (kittySeq 105 117 { key := 105, mods := shiftBit, shifted := 304, text := [304] } kittyForm)) 304 shiftBit = false := by
  decide

theorem cross_protocol_char_shift_full_fails : ¬ cross_protocol_char_shift_full := by
  intro h
  have h2 := (h turkUni 105 304 kittyForm (by decide) (by decide) (by decide) (by decide) (by decide) (by decide +kernel)
    ⟨rfl, rfl, rfl⟩ (fun _ => by decide)).2 304 shiftBit
  rw [dotted_I_differs.1, dotted_I_differs.2] at h2
  cases h2

end VaxisModel.Witness.F210
