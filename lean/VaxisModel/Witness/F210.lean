/-
F210 (FIXED in /repo: the Shift-text work-around uses the reported shifted code when the report carries a
printable one) — Shift + a letter key whose shifted character is NOT `unicode.ToUpper` of the key (Turkish
layout: the key 'i' produces 'İ' U+0130; also 'k' → Kelvin sign U+212A, 'ß' → 'ẞ' U+1E9E: each is
`IsUpper` with `ToLower` = the key, but `ToUpper(key)` is another rune):

* legacy report: the character 'İ' → `Key{Keycode: 'i', ShiftedCode: 'İ', Modifiers: Shift, Text: "İ"}`;
* kitty report with the shifted code and without the text field, `CSI 105:304;2 u`: before the fix
  `Text: "I"` (invented from `ToUpper(Keycode)` although the report says which character Shift produces),
  now `Text: "İ"`.

Before the fix binding ('İ', Shift) matched the legacy event only and binding ('I', Shift) the kitty event
only.  This file now proves the regression statements on the model of the fixed code and that
`cross_protocol_char_shift` holds without any hypothesis relating `ToUpper c` to `C`.
-/
import VaxisModel.Props.C09Uni

namespace VaxisModel.Witness.F210
open VaxisModel.Model.Key VaxisModel.Spec.KeyEnc VaxisModel.Spec.KeyEncUni VaxisModel.Gen.Keys

/-- Go's values on ASCII and for 'İ' (U+0130): `IsUpper`, `ToLower('İ') = 'i'`, `ToUpper('i') = 'I'`. -/
def turkUni : Uni where
  isUpper r := asciiUni.isUpper r || decide (r = 304)
  isLower r := asciiUni.isLower r
  isLetter r := asciiUni.isLetter r || decide (r = 304)
  isGraphic r := asciiUni.isGraphic r || decide (r = 304)
  isPrint r := asciiUni.isPrint r || decide (r = 304)
  toUpper r := asciiUni.toUpper r
  toLower r := if r = 304 then 105 else asciiUni.toLower r
  foldEq a b := asciiUni.foldEq a b

/-- `cross_protocol_char_shift` without the former hypothesis `ToUpper c = C`. -/
def cross_protocol_char_shift_full : Prop :=
  ∀ (u : Uni) (c C : Int) (f : Form),
    validRune c = true → validRune C = true → c ≠ 127 → u.isUpper C = true → u.toLower C = c →
    lookup2 (c, 117) functional = none →
    (f.withShifted = true ∧ f.withBase = false ∧ f.hasMods = true) →
    (f.withText = false → u.isPrint c = true) → (f.withText = false → u.isPrint C = true) →
    keyString u (decodeKey u (.print [C])) =
      keyString u (decodeKey u (kittySeq c 117 { key := c, mods := shiftBit, shifted := C, text := [C] } f)) ∧
    ∀ b m, «matches» u (decodeKey u (.print [C])) b m =
           «matches» u (decodeKey u (kittySeq c 117 { key := c, mods := shiftBit, shifted := C, text := [C] } f)) b m

def kittyForm : Form := { withShifted := true, withMods := true }

/-- Both reports now carry the text 'İ' (before the fix: [304] vs [73]). -/
theorem dotted_I_text_same :
    (decodeKey turkUni (.print [304])).text = [304] ∧
    (decodeKey turkUni (kittySeq 105 117 { key := 105, mods := shiftBit, shifted := 304, text := [304] } kittyForm)).text = [304] := by
  decide

/-- Binding ('İ', Shift) matches both, binding ('I', Shift) neither. -/
theorem dotted_I_same :
    «matches» turkUni (decodeKey turkUni (.print [304])) 304 shiftBit = true ∧
    «matches» turkUni (decodeKey turkUni (kittySeq 105 117 { key := 105, mods := shiftBit, shifted := 304, text := [304] } kittyForm)) 304 shiftBit = true ∧
    «matches» turkUni (decodeKey turkUni (.print [304])) 73 shiftBit = false ∧
    «matches» turkUni (decodeKey turkUni (kittySeq 105 117 { key := 105, mods := shiftBit, shifted := 304, text := [304] } kittyForm)) 73 shiftBit = false := by
  decide

theorem cross_protocol_char_shift_full_holds : cross_protocol_char_shift_full :=
  fun u c C f hv hV hdel hup hlow hfun hf hp hpC =>
    VaxisModel.Props.C09Uni.cross_protocol_char_shift u c C f hv hV hdel hup hlow hfun hf hp hpC

end VaxisModel.Witness.F210
