import VaxisModel.Lemmas.ConcShutdown

/-! F210 (**fixed**, /repo "fix: Suspend and Resume are serialised by a mutex"): the application
calls `Suspend()` while a kill signal makes the input goroutine call `Close()`, which calls
`Suspend()` too.  `vx.suspended` was a plain field read and written by both (data race reported by
the race detector, harness op `race sigsuspend`); both could pass the guard — two close signals for
one parser, the second `p.close <- true` blocks for ever — or `Close` saw the flag set, skipped
`Suspend` and closed the console under the application's running `Suspend`.  `Suspend` and `Resume`
now hold `vx.suspendMu` from their first statement to their return.  In the model: `suspLock`. -/
namespace VaxisModel.Witness.F210
open VaxisModel.Model.Conc VaxisModel.Lemmas.ConcShutdown

def s0 : SSys := { inbuf := [some 1] }

/-- The application's `Suspend` (caller 0) is inside its critical section when the signal arm of the
input goroutine starts `Close` (caller 1). -/
def prefix1 : List SLabel :=
  [.callSuspend, .caller 0,                 -- lock, guard: suspended := true
   .signal, .input .kill,                   -- SIGTERM; the input goroutine calls Close (caller 1)
   .caller 1, .caller 1]                    -- test-and-set of `closed`, quit event; next: Suspend

/-- `Close`'s `Suspend` waits for the lock … -/
theorem close_waits_for_the_lock :
    (match srun s0 prefix1 with
     | some s => s.suspLock && s.callers == [{ pc := .signalClose, inClose := false }, { pc := .checkSuspended }] &&
                 (snext s (.caller 1)).isNone && (snext s (.caller 0)).isSome
     | none => false) = true := by decide

def rest : List SLabel :=
  [.caller 0, .caller 0,                    -- close signal, DA1 query
   .termReply, .parser, .parser, .parser, .parser, .parser,   -- the pending key is emitted; the parser takes the signal, emits EOF, stops
   .drain 0,                                -- (WaitClose discards what is in the channel)
   .caller 0,                               -- WaitClose returns; Suspend returns and unlocks
   .caller 1, .caller 1]                    -- Close: lock, already suspended; console.Close, close(chQuit)

/-- … and then finds the session suspended: both calls return, everything is done, `chQuit` is closed
once, the lock is free. -/
theorem both_return :
    (match srun s0 (prefix1 ++ rest) with
     | some s => s.callers.all (·.pc == .returned) && s.ppc == .done && s.ipc == .done && s.quitCloses == 1 && !s.suspLock &&
                 s.suspendedFlag && s.closedFlag
     | none => false) = true := by decide

end VaxisModel.Witness.F210
