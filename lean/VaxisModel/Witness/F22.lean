import VaxisModel.Lemmas.EmuWitnessLib
/-! F22 (C06, fixed by f975160): IL/DL clamped the count to bottom−row instead of bottom−row+1: `CSI 3 L` on line 2 of 3 inserted one line instead of two. Corpus: corpus/C06/F22-*.ops. -/
namespace VaxisModel.Witness.F22
open VaxisModel.Model.Emu VaxisModel.Lemmas.EmuWitness

def before : Fixes := { Fixes.current with f22 := false }
def fill : List EOp := [pr [97], pr [98], pr [99], pr [100], pr [101], pr [102], csi1 72 [2, 1]]
theorem il_one_line_short : disagrees before 2 3 (fill ++ [csi1 76 [3]]) = true := by decide +kernel
theorem dl_one_line_short : disagrees before 2 3 (fill ++ [csi1 77 [3]]) = true := by decide +kernel
theorem now_agrees : agrees Fixes.current 2 3 (fill ++ [csi1 76 [3]]) = true ∧ agrees Fixes.current 2 3 (fill ++ [csi1 77 [3]]) = true := by decide +kernel
end VaxisModel.Witness.F22
