/-
F220 (repaired, /repo fa35d51) — `FullBlockImage.Resize` read `bot := img.At(x, y+1)` for every cell; in the last
cell row of an image of odd pixel height there is no such pixel, `At` returns the zero colour, and `averageColor`
averaged it in as transparent black: the row was shown at half brightness (mean alpha 127 ≥ 50, so it is drawn).
The property text says "Block-rendered images give each cell exactly the colours of the source pixels it covers";
such a cell covers one source pixel.  The pre-repair reading is kept here as the mode `.read`; the current source
(`Gen.fullBlockBottom = .topIfMissing`) gives `Props.C20Pixels.full_pipeline_opaque`.
Replayed on the real code by corpus/C20/F220.ops.
-/
import VaxisModel.Props.C20Pixels

namespace VaxisModel.Witness.F220
open VaxisModel.Model.Blocks VaxisModel.Model.Scaler VaxisModel.Spec.Images VaxisModel.Gen.ImageConsts

/-- A 1×1 opaque image of colour (200, 100, 50). -/
def onePixel : Img8 := ⟨.nrgba, 1, 1, #[⟨200, 100, 50, 255⟩]⟩

/-- Unrepaired: the single cell gets (100, 50, 25). -/
theorem odd_last_row_darkened :
    blockCellsWith .read fullCell onePixel.view = [(0, 0, ⟨0x20, 0, directColor 100 50 25⟩)] := by decide +kernel

/-- "The cell shows the colour of the one pixel it covers" fails for the unrepaired reading … -/
theorem full_last_row_exact_fails_unfixed :
    ¬ ∀ img : Img8, img.w = 1 → img.h = 1 → (img.pix 0 0).a = 255 →
      ∀ e ∈ blockCellsWith .read fullCell img.view,
        e.2.2.bg = directColor (img.pix 0 0).r (img.pix 0 0).g (img.pix 0 0).b := by
  intro h
  have := h onePixel rfl rfl rfl (0, 0, ⟨0x20, 0, directColor 100 50 25⟩) (by rw [odd_last_row_darkened]; simp)
  revert this
  decide

/-- … and holds of the current source. -/
theorem odd_last_row_exact_now : fullCells onePixel.view = [(0, 0, ⟨0x20, 0, directColor 200 100 50⟩)] := by
  decide +kernel

end VaxisModel.Witness.F220
