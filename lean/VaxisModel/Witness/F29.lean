/-
F29 (C08, outside the property: the arrival gap equals the 10 ms delay).  If the Escape timer fires
after `ReadRune` has returned the next byte but before `escTimeout.Stop()`, the callback runs
concurrently with the transition on that byte.  The LTS label `raceFire` models the two possible
orders of the callback's `state = ground` and the transition.
-/
import VaxisModel.Model.ParserRun

namespace VaxisModel.Witness.F29
open VaxisModel.Model.Parser VaxisModel.Model.ParserRun

/-- `ESC [ A` with the timer firing as `[` arrives (state reset lands after the transition): the
    Escape key is reported *and* the sequence is torn apart — `[` is swallowed, `A` is printed.
    Without the race the same bytes give exactly one CSI. -/
theorem F29_state_reset_mid_sequence :
    ((Sys.run handTable true Sys.init
        [.enterRead, .read 0x1B, .enterRead, .raceFire 0x5B true, .enterRead, .read 0x41]).map (·.2))
      = some [.c0 0x1B, .print 0x41] ∧
    ((Sys.run handTable true Sys.init
        [.enterRead, .read 0x1B, .enterRead, .read 0x5B, .enterRead, .read 0x41]).map (·.2))
      = some [.csi [] [] 0x41] := by decide

/-- With the other order the Escape key is reported and the bytes are parsed from ground — the
    same as a gap just above 10 ms; a harmless outcome of the same race. -/
theorem F29_benign_order :
    ((Sys.run handTable true Sys.init
        [.enterRead, .read 0x1B, .enterRead, .raceFire 0x5B false, .enterRead, .read 0x41]).map (·.2))
      = some [.c0 0x1B, .print 0x5B, .print 0x41] := by decide

end VaxisModel.Witness.F29
