/-
F29 (C08).  Before its repair the Escape-timer callback emitted `C0 0x1B` without the mutex and
reset the state afterwards, whenever it got to run.  If the timer expired just as the next bytes —
or the end of input — arrived, the callback ran after them.  The LTS with the unguarded callback
(`Cfg.unguarded`) reaches all three failures; the same schedules are forced on the real parser by
the harness (yield hook at the start of the callback; corpus/C08/F29-*.ops) and with the repaired
callback (`Cfg.fixed`) they are harmless.
-/
import VaxisModel.Model.ParserRun

namespace VaxisModel.Witness.F29
open VaxisModel.Model.Parser VaxisModel.Model.ParserRun

/-- `ESC [ A`, callback delayed until the sequence has been parsed: the CSI *and then* an Escape key. -/
theorem F29_escape_after_sequence :
    ((Sys.run handTable Cfg.unguarded Sys.init
        [.enterRead, .read 0x1B, .enterRead, .timerExpire, .read 0x5B, .enterRead, .read 0x41, .cbRun false]).map (·.2))
      = some [.csi [] [] 0x41, .c0 0x1B] ∧
    ((Sys.run handTable Cfg.fixed Sys.init
        [.enterRead, .read 0x1B, .enterRead, .timerExpire, .read 0x5B, .enterRead, .read 0x41, .cbRun false]).map (·.2))
      = some [.csi [] [] 0x41] := by decide

/-- Callback delayed until the middle of the sequence: the state is reset to ground after `[`,
    the sequence is torn apart (`A` is printed). -/
theorem F29_state_reset_mid_sequence :
    ((Sys.run handTable Cfg.unguarded Sys.init
        [.enterRead, .read 0x1B, .enterRead, .timerExpire, .read 0x5B, .cbRun false, .enterRead, .read 0x41]).map (·.2))
      = some [.c0 0x1B, .print 0x41] ∧
    ((Sys.run handTable Cfg.fixed Sys.init
        [.enterRead, .read 0x1B, .enterRead, .timerExpire, .read 0x5B, .cbRun false, .enterRead, .read 0x41]).map (·.2))
      = some [.csi [] [] 0x41] := by decide

/-- Callback delayed past the end of the loop: send on the closed channel — the process panics. -/
theorem F29_send_on_closed_channel :
    ((Sys.run handTable Cfg.unguarded Sys.init
        [.enterRead, .read 0x1B, .enterRead, .timerExpire, .readEnd, .cbRun false]).map (·.2))
      = some [.eof, .panic] ∧
    ((Sys.run handTable Cfg.fixed Sys.init
        [.enterRead, .read 0x1B, .enterRead, .timerExpire, .readEnd, .cbRun false]).map (·.2))
      = some [.eof] := by decide

end VaxisModel.Witness.F29
