import VaxisModel.Model.InputQuery

/-!
# F303 — (repaired in round 4) colour query answers kept only the low byte of each channel

`RGBColor(uint8(r), uint8(g), uint8(b))` after `Sscanf("…rgb:%x/%x/%x")`: for a reply with 16 bits
per channel that does not repeat its byte, and for 1- or 3-digit channels, the colour returned was
not the colour the reply reports (XParseColor: `h`, `hh`, `hhh`, `hhhh` are scaled to the same
range).  Repaired by `parseColorReply` (one helper: each channel parsed as 1–4 hexadecimal digits,
scaled, high byte kept); `Props/C03Query.query_reply_exact` proves the statement below for the new
parse.  This file keeps the refutation for the old parse (`colorOfReplySscanf`).
-/
namespace VaxisModel.Witness.F303
open VaxisModel.Model.InputQuery VaxisModel.Model.Color

/-- `10;rgb:1234/5678/9abc` reports #12569a; the old requester returned #3478bc. -/
theorem low_byte_16bit :
    colorOfReplySscanf litFg (ascii "10;rgb:1234/5678/9abc") = rgbColor 0x34 0x78 0xbc ∧
    (xparseChannel (ascii "1234"), xparseChannel (ascii "5678"), xparseChannel (ascii "9abc")) = (some 0x12, some 0x56, some 0x9a) := by
  decide

/-- `11;rgb:f/f/f` reports white; the old requester returned #0f0f0f. -/
theorem low_byte_1digit :
    colorOfReplySscanf litBg (ascii "11;rgb:f/f/f") = rgbColor 0x0f 0x0f 0x0f ∧ xparseChannel (ascii "f") = some 0xff := by
  decide

/-- The full statement was false of the code before the repair. -/
theorem query_reply_exact_failed_before_repair : ¬ ExactFor colorOfReplySscanf := by
  intro h
  have := h litFg (ascii "1234") (ascii "5678") (ascii "9abc") 0x12 0x56 0x9a (by decide) (by decide) (by decide)
  revert this
  decide

end VaxisModel.Witness.F303
