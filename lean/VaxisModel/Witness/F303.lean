import VaxisModel.Model.InputQuery

/-!
# F303 — colour query answers keep only the low byte of each channel

`RGBColor(uint8(r), uint8(g), uint8(b))` after `Sscanf("…rgb:%x/%x/%x")`: for a reply with 16 bits
per channel that does not repeat its byte, and for 1- or 3-digit channels, the colour returned is
not the colour the reply reports (XParseColor: `h`, `hh`, `hhh`, `hhhh` are scaled to the same
range).  Recorded as a known finding (the source documents the cut as deliberate; a repair needs a
parser of its own because `Sscanf` loses the digit count).
-/
namespace VaxisModel.Witness.F303
open VaxisModel.Model.InputQuery VaxisModel.Model.Color

/-- Full statement: whenever the three channels are well-formed XParseColor groups, the requester
returns the colour they report. -/
def query_reply_exact_full : Prop :=
  ∀ (r g b : List Nat) (vr vg vb : Nat), xparseChannel r = some vr → xparseChannel g = some vg → xparseChannel b = some vb →
    colorOfReply litFg (litFg ++ (r ++ 47 :: (g ++ 47 :: b))) = rgbColor vr vg vb

/-- `10;rgb:1234/5678/9abc` reports #12569a; the requester returns #3478bc. -/
theorem low_byte_16bit :
    colorOfReply litFg (ascii "10;rgb:1234/5678/9abc") = rgbColor 0x34 0x78 0xbc ∧
    (xparseChannel (ascii "1234"), xparseChannel (ascii "5678"), xparseChannel (ascii "9abc")) = (some 0x12, some 0x56, some 0x9a) := by
  decide

/-- `11;rgb:f/f/f` reports white; the requester returns #0f0f0f. -/
theorem low_byte_1digit :
    colorOfReply litBg (ascii "11;rgb:f/f/f") = rgbColor 0x0f 0x0f 0x0f ∧ xparseChannel (ascii "f") = some 0xff := by
  decide

theorem query_reply_exact_fails : ¬ query_reply_exact_full := by
  intro h
  have := h (ascii "1234") (ascii "5678") (ascii "9abc") 0x12 0x56 0x9a (by decide) (by decide) (by decide)
  revert this
  decide

end VaxisModel.Witness.F303
