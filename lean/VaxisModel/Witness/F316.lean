/-
F316 (C16): `RichText.Draw` with `Softwrap = false` (and `Text.Draw` without soft wrap: the same
loop) writes an ellipsis whenever `col + width >= Max.Width && i < len(chars)`.  `i < len(chars)` is
always true inside `for i, char := range chars` (the comment says "and we aren't the last char":
`len(chars)-1` was meant), so a line that fits *exactly* loses its last grapheme to "…": "a" at
Max.Width 1 is drawn as "…", "aa" at Max.Width 2 as "a…".  "The text widgets draw exactly the
emitted lines" is false of the hard-wrap widget for lines exactly as wide as the widget.
-/
import VaxisModel.Model.WrapDraw
import VaxisModel.Spec.WrapDraw

namespace VaxisModel.Witness.F316
open VaxisModel.Model VaxisModel.Model.WrapDraw
open VaxisModel.Spec.WrapDraw (over overHard width)

def a : Wrap.Cell := { g := 0, w := 1, style := 1, sp := false, term := false, nl := false }

/-- what the surface holds after `Draw` (a Bool observer: `Drawn` has no decidable equality) -/
def shows (d : Drawn) (w h : UInt16) (buf : List Window.Cell) : Bool :=
  match d with
  | .ok s => decide (s.w = w ∧ s.h = h ∧ s.buf = buf)
  | _ => false

/-- "a" at Max 1×1: the surface is 1×1 and shows "…" -/
theorem a_drawn_as_ellipsis :
    shows (richHardDraw 1 1 [a]) 1 1 [{ g := Window.gEllipsis, w := 1, st := 1 }] = true := by decide

/-- "aa" at Max 2×1: "a…" -/
theorem aa_drawn_as_a_ellipsis :
    shows (richHardDraw 2 1 [a, a]) 2 1 [toWin a, { g := Window.gEllipsis, w := 1, st := 1 }] = true := by decide

/-- The row function of the code differs from "the line as it is" for a line that fits exactly. -/
theorem exact_fit_is_truncated :
    ¬ (∀ (maxW : Nat) (est : Option Nat) (line : List Window.Cell) (f : Nat → Option Window.Cell) (x : Nat),
        width line ≤ maxW → overHard maxW est line 0 f x = over line 0 f x) := by
  intro h
  have := h 1 none [toWin a] (fun _ => none) 0 (by decide)
  revert this
  decide

end VaxisModel.Witness.F316
