/-
F316 (C16, fixed in /repo 65842f0): `RichText.Draw` with `Softwrap = false` (and `Text.Draw` without
soft wrap: the same loop) wrote an ellipsis whenever `col + width >= Max.Width && i < len(chars)`.
`i < len(chars)` is always true inside `for i, char := range chars` (the comment said "and we aren't
the last char": `len(chars)-1` was meant), so a line that fits *exactly* lost its last grapheme to
"…": "a" at Max.Width 1 was drawn as "…", "aa" at Max.Width 2 as "a…".

The model reads the conjuncts of that condition from the source (`Gen.SurfaceFacts.richEllipsisCond`);
`preFix` is the mode with the conjuncts of the old source.  On the witnesses the old condition draws
the ellipsis, the current source (`truncate && col+uint16(char.Width) >= ctx.Max.Width`, `truncate` =
the line is wider than `Max.Width`) draws the line as it is; the `len(chars)-1` reading would still
cut "a" + zero-width grapheme at width 1.
-/
import VaxisModel.Model.WrapDraw
import VaxisModel.Spec.WrapDraw

namespace VaxisModel.Witness.F316
open VaxisModel.Model VaxisModel.Model.WrapDraw
open VaxisModel.Spec.WrapDraw (over hardLine width)

def a : Wrap.Cell := { g := 0, w := 1, style := 1, sp := false, term := false, nl := false }
/-- a zero-width grapheme (U+200B, a lone combining mark …) -/
def z : Wrap.Cell := { g := 1, w := 0, style := 1, sp := false, term := false, nl := false }

/-- the hard-wrap mode of RichText with the ellipsis condition of the source before the fix -/
def preFix : Layout.TextMode := { Layout.richMode true with ell := [.reach, .idxLtLen] }
/-- … and with `i < len(chars)-1`, the reading the old comment suggests -/
def lenMinus1 : Layout.TextMode := { Layout.richMode true with ell := [.reach, .idxLtLenM1] }

def drawWithMode (m : Layout.TextMode) (maxW maxH : UInt16) (lines : List (List Wrap.Cell)) : Drawn :=
  ofExcept (Layout.drawText Surface.srcArith m (ctxOf maxW maxH) (lines.map (·.map toWin)))

/-- what the surface holds after `Draw` (a Bool observer: `Drawn` has no decidable equality) -/
def shows (d : Drawn) (w h : UInt16) (buf : List Window.Cell) : Bool :=
  match d with
  | .ok s => decide (s.w = w ∧ s.h = h ∧ s.buf = buf)
  | _ => false

/-- before the fix: "a" at Max 1×1 is a 1×1 surface showing "…" -/
theorem a_was_drawn_as_ellipsis :
    shows (drawWithMode preFix 1 1 [[a]]) 1 1 [{ g := Window.gEllipsis, w := 1, st := 1 }] = true := by decide

/-- before the fix: "aa" at Max 2×1 is "a…" -/
theorem aa_was_drawn_as_a_ellipsis :
    shows (drawWithMode preFix 2 1 [[a, a]]) 2 1 [toWin a, { g := Window.gEllipsis, w := 1, st := 1 }] = true := by decide

/-- the current source draws both as they are -/
theorem a_drawn_as_a :
    shows (richHardDraw 1 1 [a]) 1 1 [toWin a] = true ∧
    shows (richHardDraw 2 1 [a, a]) 2 1 [toWin a, toWin a] = true := by decide

/-- `i < len(chars)-1` would not have been enough: "a" followed by a zero-width grapheme fits
Max.Width 1 and would still be drawn as "…"; the current source draws the "a" (the zero-width
grapheme has no column of its own on a surface one column wide). -/
theorem len_minus_one_not_enough :
    shows (drawWithMode lenMinus1 1 1 [[a, z]]) 1 1 [{ g := Window.gEllipsis, w := 1, st := 1 }] = true ∧
    shows (richHardDraw 1 1 [a, z]) 1 1 [toWin a] = true := by decide

/-- a line that does not fit: "aaa" at Max.Width 2 is "a…" (longest prefix that leaves a column, then the ellipsis) -/
theorem aaa_truncated :
    shows (richHardDraw 2 1 [a, a, a]) 2 1 [toWin a, { g := Window.gEllipsis, w := 1, st := 1 }] = true ∧
    hardLine 2 none [toWin a, toWin a, toWin a] = [toWin a, { g := Window.gEllipsis, w := 1, st := 1 }] := by decide

end VaxisModel.Witness.F316
