/-
F320 (round 4; repaired, /repo 7b69059) — `HalfBlockImage.Resize` read `img.At(x, y+1)` for every cell.  In the last
cell row of an image of odd pixel height there is no such pixel, and what `At` returns outside the bounds depends on
the image type: the transparent zero colour for `*image.NRGBA` / `*image.RGBA` (so the lower half stayed at the default
colour — by luck), but OPAQUE BLACK for `*image.Gray` (`color.Gray{}`), the FIRST PALETTE ENTRY for `*image.Paletted`,
a dark green for `*image.YCbCr` (`color.YCbCr{}`).  An unscaled odd-height image of such a type got that colour as the
background of its last row.  Against "each cell exactly the colours of the source pixels it covers" (such a cell
covers one pixel).  Found by the round-4 streams `halfg` / `halfq` (real `image.Gray` / `image.Paletted` sources):
`halfg 1 1 c8c8c8ff …` ⇒ cell `▀` fg (200,200,200) bg `0x2000000` (black) instead of the default colour.
Repair: the lower pixel is read only when the image has that row (`Gen.halfBlockBottom = .zeroIfMissing`), as
`FullBlockImage.Resize` does since F220.  Replayed on the real code by corpus/C20/F320.ops.

The model's images answer the zero colour outside their bounds, so the pre-repair reading is shown here on the colours
themselves: what the cell function makes of "upper pixel, and below it what the image type answers outside".
-/
import VaxisModel.Props.C20Pixels

namespace VaxisModel.Witness.F320
open VaxisModel.Model.Blocks VaxisModel.Spec.Images VaxisModel.Gen.ImageConsts

/-- `color.Gray{}.RGBA()`: what `(*image.Gray).At` answers outside the bounds. -/
def grayOutside : C16 := ⟨0, 0, 0, 0xffff⟩
/-- `color.Gray{200}.RGBA()`. -/
def gray200 : C16 := ⟨200 * 257, 200 * 257, 200 * 257, 0xffff⟩

/-- Unrepaired: the last row of an odd-height `image.Gray` gets a black background … -/
theorem gray_last_row_black_unfixed : halfCell gray200 grayOutside = ⟨0x2580, directColor 200 200 200, directColor 0 0 0⟩ := by
  decide +kernel

/-- … so "the lower half of a cell below which the image has no pixel stays at the default colour" fails for the
    unrepaired reading (any image type whose `At` is not transparent outside the bounds) … -/
theorem half_last_row_default_fails_unfixed :
    ¬ ∀ top outside : C16, (halfCell top outside).bg = 0 := by
  intro h
  have := h gray200 grayOutside
  rw [gray_last_row_black_unfixed] at this
  revert this
  decide

/-- … and holds of the current source for every image: in a last odd row the regenerated reading passes the zero colour,
    whatever the upper pixel is, and the cell's background is the default colour. -/
theorem half_last_row_default_now (img : Img) (x y : Nat) (h : ¬ y + 1 < img.h) :
    lowerPx halfBlockBottom img x y = ⟨0, 0, 0, 0⟩ ∧ (halfCell (img.at x y) (lowerPx halfBlockBottom img x y)).bg = 0 := by
  have hb : halfBlockBottom = .zeroIfMissing := by decide
  have hl : lowerPx halfBlockBottom img x y = ⟨0, 0, 0, 0⟩ := by
    rw [hb]; show (if y + 1 < img.h then img.at x (y + 1) else (⟨0, 0, 0, 0⟩ : C16)) = _; rw [if_neg h]
  refine ⟨hl, ?_⟩
  rw [hl]
  have harms : halfBlockArms = [⟨some .lt, some .lt, 0x20, .none, .none⟩, ⟨some .lt, none, 0x2584, .bot, .none⟩,
      ⟨none, some .lt, 0x2580, .top, .none⟩, ⟨none, none, 0x2580, .top, .bot⟩] := by decide
  have ht : transparentEnough = 50 := by decide
  unfold halfCell
  rw [harms]
  have hz : (toRGB ⟨0, 0, 0, 0⟩).a = 0 := by decide
  have h50 : VaxisModel.Model.ImageFit.evalCmp Cmp.lt 0 50 = true := by decide
  simp only [halfArms, condHolds, hz, ht, h50, Bool.and_true, if_true]
  split
  · rfl
  · rfl

end VaxisModel.Witness.F320
