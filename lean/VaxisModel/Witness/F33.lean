import VaxisModel.Lemmas.ConcShutdown

/-! F33 (**fixed**, /repo 9e1dac2): two goroutines call `Close()` concurrently.  `vx.closed` used to
be read and written without synchronisation; both callers could pass the check before either set
the flag, and `chQuit` was closed twice ("panic: close of closed channel").  `Close` now tests and
sets the flag under `closeMu`; the schedule that used to double-close (kept in the corpus as the
harness op `dblclose` / `race dblclose`) now lets exactly one caller through.  The general
statement — `chQuit` is closed at most once in every reachable state — is
`Props.C10Shutdown.quit_closed_once`. -/
namespace VaxisModel.Witness.F33
open VaxisModel.Model.Conc VaxisModel.Lemmas.ConcShutdown

def s0 : SSys := {}

/-- The schedule of the old witness: both callers reach the check before anything else happens. -/
def witness : List SLabel :=
  [.callClose, .callClose,
   .caller 0, .caller 1,                       -- test-and-set: the first wins, the second returns
   .caller 0, .caller 0,                       -- first: quit event, suspended := true
   .caller 0, .caller 0, .termReply, .parser, .parser, .parser, .parser,   -- first: signal, DA1; parser exits
   .input .recv,                               -- the input goroutine returns
   .caller 0, .caller 0]                       -- first: WaitClose returns, close(chQuit)

theorem no_double_close :
    (match srun s0 witness with
     | some s => s.final && !s.panicked && s.quitCloses == 1 && s.callers == [{ pc := .returned }, { pc := .returned }]
     | none => false) = true := by decide

/-- The second caller can do nothing but return: after the two test-and-sets it is at `returned`. -/
theorem second_caller_returns :
    (match srun s0 [.callClose, .callClose, .caller 0, .caller 1] with
     | some s => s.callers == [{ pc := .postQuit }, { pc := .returned }]
     | none => false) = true := by decide

end VaxisModel.Witness.F33
