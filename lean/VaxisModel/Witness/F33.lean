import VaxisModel.Lemmas.ConcShutdown

/-! F33 (recorded): two goroutines call `Close()` concurrently.  `vx.closed` is read and written
without synchronisation (the race detector reports it: harness op `race dblclose`); both callers
can pass the check before either sets the flag.  The second caller then finds `suspended` already
set, skips the dance, closes the console under the first caller's feet and closes `chQuit`; when the
first caller finishes it closes `chQuit` again: "panic: close of closed channel". -/
namespace VaxisModel.Witness.F33
open VaxisModel.Model.Conc VaxisModel.Lemmas.ConcShutdown

def s0 : SSys := {}

def witness : List SLabel :=
  [.callClose, .callClose,
   .caller 0, .caller 1,                       -- both read closed == false
   .caller 0, .caller 0, .caller 0,            -- first: quit event, flag, suspended := true
   .caller 1, .caller 1, .caller 1,            -- second: quit event, flag, sees suspended → skips the dance
   .caller 1,                                  -- second: console.Close(), close(chQuit), return
   .caller 0, .caller 0, .termReply, .parser, .parser, .parser, .parser,   -- first: signal, DA1; parser exits
   .inputRecv,                                 -- the input goroutine returns
   .caller 0, .caller 0]                       -- first: WaitClose returns, close(chQuit) again

theorem reaches_double_close :
    (match srun s0 witness with
     | some s => s.panicked && s.callers == [.returned, .returned] && s.quitCloses == 2
     | none => false) = true := by decide

/-- With a single caller `chQuit` is closed once: the same schedule without the second caller. -/
theorem single_close_is_fine :
    (match srun s0 [.callClose, .caller 0, .caller 0, .caller 0, .caller 0, .caller 0, .caller 0, .termReply,
        .parser, .parser, .parser, .parser, .inputRecv, .caller 0, .caller 0] with
     | some s => s.final && !s.panicked && s.quitCloses == 1
     | none => false) = true := by decide

end VaxisModel.Witness.F33
