/-
F39 (C14): with the height guard written `size.Height > ctx.Max.Height` (as it was before the fix),
Text / RichText `findContainerSize` returns a height of Max.Height + 1 for content taller than the
maximum: `size_le_max` is false of that code.  Witness: 5 lines, Max = 3×3 → height 4.
-/
import VaxisModel.Model.Layout

namespace VaxisModel.Witness.F39
open VaxisModel.Model.Layout VaxisModel.Model.Window

def ctx : Ctx := { minW := 0, minH := 0, maxW := 3, maxH := 3 }
def fiveLines : List (List Cell) := List.replicate 5 [⟨97, 1, 0⟩]

theorem height_exceeds_max : (findContainerSize false ctx fiveLines).2 = 4 := by decide

theorem size_le_max_fails_with_nonstrict_guard :
    ¬ (∀ (c : Ctx) (lines : List (List Cell)), (findContainerSize false c lines).2 ≤ c.maxH) := by
  intro h
  exact absurd (h ctx fiveLines) (by decide)

/-- With the guard `>=` the same input stays within the maximum. -/
theorem strict_guard_ok : (findContainerSize true ctx fiveLines).2 = 3 := by decide

end VaxisModel.Witness.F39
