/-
F40 (C14): `make([]vaxis.Cell, height*width)` with both operands uint16 wraps: a 300×300 surface
gets 24 464 cells instead of 90 000.
-/
import VaxisModel.Model.Surface

namespace VaxisModel.Witness.F40
open VaxisModel.Model.Surface

def narrowLen : Arith := { wideLen := false, wideIdx := true, strictRow := true }

theorem buffer_wraps : bufLen narrowLen 300 300 = 24464 := by decide

theorem newSurface_len_fails :
    ¬ (∀ w h : UInt16, (newSurface narrowLen w h).buf.length = w.toNat * h.toNat) := by
  intro h
  have := h 300 300
  simp only [newSurface, Surface.buf, List.length_replicate] at this
  exact absurd this (by decide)

/-- A write inside the 300×300 surface then indexes past the short buffer: a panic. -/
theorem inside_write_panics :
    (match writeCell narrowLen (newSurface narrowLen 300 300) 0 250 default with
     | .error _ => true | .ok _ => false) = true := by decide +kernel

end VaxisModel.Witness.F40
