import VaxisModel.Lemmas.C04Session

/-!
# F404 — a kill signal mid-frame: the application's frame follows the restore sequence

The kill-signal arm (and the panic handler) of the input goroutine run `Close` on that goroutine while
the main goroutine — which cannot know — is somewhere in its frame (F410: nothing excludes the two).
On the schedule in which the main goroutine's `ShowCursor` + `Render` land after `Suspend` has written
the restore sequence and before `Close` has closed the console, the frame's epilogue shows the cursor
again with the APPLICATION's style: the terminal is not back at the user's cursor shape when `Close`
returns.  Model: the tokens of the shutdown, then the tokens the writer's epilogue emits for a visible
cursor (`Render.showCursorToks`), on the mode terminal.  Real code: harness sessions
`closeby signalframe` (forced through the console's `Reset()` call, the last statement of `Suspend`).
-/
namespace VaxisModel.Witness.F404
open VaxisModel.Model.Lifecycle VaxisModel.Model.Render VaxisModel.Spec.ModeTerm
open VaxisModel.Lemmas.C04Session VaxisModel.Lemmas.C04SymCheck

/-- Assignment 0 (nothing advertised), user cursor style 0; the application shows the cursor with style 3. -/
def sess : Sess :=
  let e := envV 0 1 0 ""
  shutdown e (runOps e (start e (t0V 0 e 0))
    [.cursor { row := 1, col := 1, style := 3, visible := true } { row := 1, col := 1, style := 3, visible := true }])

/-- The shutdown alone restores the terminal; the application's next cursor epilogue after it does not
leave it restored (cursor shape 3 instead of the user's 0). -/
theorem frame_after_restore_breaks_it :
    restored (t0V 0 (envV 0 1 0 "") 0) sess.t = true ∧
    restored (t0V 0 (envV 0 1 0 "") 0) (run sess.t (showCursorToks { row := 1, col := 2, style := 3, visible := true })) = false ∧
    (run sess.t (showCursorToks { row := 1, col := 2, style := 3, visible := true })).cursorShape = 3 := by
  decide +kernel

end VaxisModel.Witness.F404
