import VaxisModel.Lemmas.C04Check

/-!
# F406 — a termination signal during `New`, before `setupSignals`

`New` installs the signal handlers as its LAST step (`setupSignals` after `enableModes`).  While it
waits — up to 3 s — for the terminal's replies to `sendQueries`, raw mode is set and `sendQueries` has set
mode 2048 (in-band resize) "blindly"; a SIGTERM / SIGINT in that window takes the default action: the
process dies and nothing is restored.  Model: what `sendQueries` (with its deferred `exitAltScreen`) has
written, on the mode terminal — mode 2048 stays set on a terminal that implements it; on a terminal that
does not, the mode terminal sees nothing left (raw mode is not part of it).  Real code: sessions
`closeby sigstartup` (a child process on a terminal that never answers DA1; the parent sends a real
SIGTERM when it has seen the DA1 query).
-/
namespace VaxisModel.Witness.F406
open VaxisModel.Model.Lifecycle VaxisModel.Spec.ModeTerm VaxisModel.Lemmas.C04Check

/-- Everything `New` has written when it starts waiting for the replies. -/
def written : List VaxisModel.Model.Render.Tok := (sendQueriesW {}).wire

theorem killed_while_waiting_leaves_2048_set :
    restored (t0Of (envOf 32)) (run (t0Of (envOf 32)) written) = false ∧
    modeVal (run (t0Of (envOf 32)) written) 2048 = true ∧
    restored (t0Of (envOf 0)) (run (t0Of (envOf 0)) written) = true := by
  decide +kernel

end VaxisModel.Witness.F406
