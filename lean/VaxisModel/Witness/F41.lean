/-
F41 (C14): WriteCell's guard `row > s.Size.Height` lets `row == Height` through; the index is then
past the buffer and the write panics instead of being ignored.  Witness: 2×2 surface, (0,2).
-/
import VaxisModel.Model.Surface

namespace VaxisModel.Witness.F41
open VaxisModel.Model.Surface

def looseRow : Arith := { wideLen := true, wideIdx := true, strictRow := false }

theorem row_eq_height_panics :
    (match writeCell looseRow (newSurface looseRow 2 2) 0 2 default with
     | .error .indexOutOfRange => true | _ => false) = true := by decide

/-- On a wider surface the same write lands nowhere near: (1,2) on 2×3 … still row == Height. -/
theorem row_eq_height_panics_wide :
    (match writeCell looseRow (newSurface looseRow 5 1) 4 1 default with
     | .error .indexOutOfRange => true | _ => false) = true := by decide

/-- With `>=` it is ignored. -/
theorem strict_guard_ignores :
    (match writeCell exact (newSurface exact 2 2) 0 2 default with
     | .ok s => s.buf == (newSurface exact 2 2).buf | _ => false) = true := by decide

end VaxisModel.Witness.F41
