import VaxisModel.Model.ConcProtect

/-!
# F410 — Close on the input goroutine (kill signal, panic) runs concurrently with the main goroutine's frame

The kill-signal arm and the panic handler of the input goroutine call `vx.Close()` on that goroutine at
an arbitrary moment of the main goroutine's work.  `Close → Suspend` writes the restore sequences
through the same `writer` (whose buffer has no lock), and reads / writes the same cursor records, as
`Render`, `ShowCursor`, `HideCursor` do on the main goroutine.  Over the regenerated access facts: for
each of these fields there is a write on one of the two goroutines and an access on the other with no
mutex in common.  On the real code: harness group `race sigrender` (a kill signal while the main
goroutine draws and renders) → the race detector reports the pairs at `writer.WriteString` /
`writer.Flush` / `ShowCursor` / `showCursor`.
-/
namespace VaxisModel.Witness.F410
open VaxisModel.Model.ConcProtect VaxisModel.Gen.Conc

theorem unprotected_pairs :
    racyPair funcRoles fieldAccesses "writer.buf" "main" "input" = true ∧
    racyPair funcRoles fieldAccesses "Vaxis.cursorNext" "main" "input" = true ∧
    racyPair funcRoles fieldAccesses "Vaxis.cursorLast" "main" "input" = true ∧
    racyPair funcRoles fieldAccesses "Vaxis.charCache" "main" "input" = true := by
  decide +kernel

/-- … whereas for a protected field there is no such pair. -/
theorem protected_field_has_no_such_pair :
    racyPair funcRoles fieldAccesses "Vaxis.suspended" "main" "input" = false ∧
    racyPair funcRoles fieldAccesses "Vaxis.closed" "main" "input" = false ∧
    racyPair funcRoles fieldAccesses "Vaxis.nextSize" "main" "input" = false := by
  decide +kernel

end VaxisModel.Witness.F410
