/-
F413 — FIXED (/repo 77b235a).  Before the fix, keypad keys delivered as key codes of their own (kitty keyboard
protocol on the host side: `KeyKeyPad0` … `KeyKeyPadBegin`) were not forwarded at all unless the event carried
text, and the child's keypad mode (DECKPAM / DECKPNM) selected nothing: no keypad key was in any table of
widgets/term/key.go and the character part of `encodeXterm` only handles key codes below `unicode.MaxRune`.  So
keypad Enter, the keypad's navigation keys and every keypad key with Shift / Ctrl wrote NOTHING.

The repair is a table extension (`keypadApplicationMode`, `keypadNumericMode`, three `KeyKeyPadBegin` rows) and one
look-up block at the head of `encodeXterm`.  This module keeps the regression statements: what was the witness of
the violation (`keypad_keys_dropped`, `keypad_mode_selects_full_fails`) is now proved the other way round over the
regenerated tables.  The general theorems are in `Props/C13Keypad.lean`.
-/
import VaxisModel.Props.C13Keypad

namespace VaxisModel.Witness.F413
open VaxisModel.Model.Key VaxisModel.Model.TermKey VaxisModel.Spec.KeyEnc VaxisModel.Spec.TermInput
open VaxisModel.Gen.Keys VaxisModel.Gen.TermKeys

/-- "The keypad mode selects the encoding" as it was stated when the finding was recorded: an unmodified keypad key
    press without text is written as its xterm report for the child's keypad / cursor-key modes.  (Num Lock off:
    under Num Lock xterm overrides the keypad mode, see `Props.C13Keypad.keypad_mode_selects`.) -/
def keypad_mode_selects_full : Prop :=
  ∀ (u : Uni) (k : Key) (pam ckm : Bool) (want : Str),
    keypadDue k.keycode pam ckm = some want → xtermMods k = 0 → k.mods &&& numBit = 0 → k.text = [] →
    encodeXterm u k pam ckm = want

/-- The statement whose negation was the witness of F413 now holds. -/
theorem keypad_mode_selects_full_holds : keypad_mode_selects_full :=
  fun u k pam ckm want h1 h2 h3 h4 => VaxisModel.Props.C13Keypad.keypad_mode_selects u k pam ckm want h1 h2 h3 h4

/-- Every keypad key the spec speaks about, in all four mode combinations: what is due is written, and it is never
    nothing (the regenerated tables; this was `keypad_keys_dropped` with `== []`). -/
theorem keypad_keys_not_dropped :
    ((keypadChars.map (·.1) ++ keypadNav.map (·.1)).all fun kc =>
      [(false, false), (false, true), (true, false), (true, true)].all fun md =>
        (match keypadDue kc md.1 md.2 with
         | some want => encodeXterm asciiUni { keycode := kc } md.1 md.2 == want && want != []
         | none => false)) = true := by
  decide +kernel

/-- The two old keypad maps of the source are still identical (they hold the four editing keys); the keypad mode
    now selects through `keypadApplicationMode`: the two modes differ on every digit / operator / Enter key. -/
theorem keypad_mode_distinguishes :
    (keypadChars.all fun e =>
      encodeXterm asciiUni { keycode := e.1 } true false != encodeXterm asciiUni { keycode := e.1 } false false) = true := by
  decide +kernel

/-- The witness input of the finding (keypad Enter, numeric mode): CR is written. -/
theorem keypad_enter_written : encodeXterm asciiUni { keycode := KeyKeyPadEnter } false false = [13] := by
  decide +kernel

end VaxisModel.Witness.F413
