/-
F413 — keypad keys delivered as key codes of their own (kitty keyboard protocol on the host side:
`KeyKeyPad0` … `KeyKeyPadBegin`) are not forwarded at all unless the event carries text, and the child's keypad
mode (DECKPAM / DECKPNM) selects nothing: `applicationKeymap` and `numericKeymap` of widgets/term/key.go are the
same four editing keys, no keypad key is in any table, and the character part of `encodeXterm` only handles key
codes below `unicode.MaxRune`.  So keypad Enter (never carries text), the keypad's navigation keys (NumLock off)
and every keypad key with Shift / Ctrl write NOTHING; with NumLock on the digits arrive through their text in both
modes.  The property: "the child's cursor-key and keypad modes select the encoding it asked for", "keys … arrive
intact".  Recorded as a known finding (a repair is a table extension with design choices — which of text and
application mode wins under NumLock —, and the source carries a TODO for it).
-/
import VaxisModel.Props.C13

namespace VaxisModel.Witness.F413
open VaxisModel.Model.Key VaxisModel.Model.TermKey VaxisModel.Spec.KeyEnc VaxisModel.Spec.TermInput
open VaxisModel.Gen.Keys VaxisModel.Gen.TermKeys

/-- "The keypad mode selects the encoding": an unmodified keypad key press without text is written as its
    xterm report for the child's keypad / cursor-key modes. -/
def keypad_mode_selects_full : Prop :=
  ∀ (u : Uni) (k : Key) (pam ckm : Bool) (want : Str),
    keypadDue k.keycode pam ckm = some want → xtermMods k = 0 → k.text = [] →
    encodeXterm u k pam ckm = want

/-- The two keypad maps of the source are identical (regenerated tables). -/
theorem keypad_maps_identical : applicationKeymap = numericKeymap := by decide

/-- Every keypad key the spec speaks about, in all four mode combinations: nothing is written. -/
theorem keypad_keys_dropped :
    ((keypadChars.map (·.1) ++ keypadNav.map (·.1)).all fun kc =>
      [(false, false), (false, true), (true, false), (true, true)].all fun md =>
        (keypadDue kc md.1 md.2).isSome && (encodeXterm asciiUni { keycode := kc } md.1 md.2 == [])) = true := by
  decide +kernel

theorem keypad_mode_selects_full_fails : ¬ keypad_mode_selects_full := by
  intro h
  have := h asciiUni { keycode := KeyKeyPadEnter } false false [13] (by decide) (by decide) rfl
  revert this
  decide +kernel

end VaxisModel.Witness.F413
