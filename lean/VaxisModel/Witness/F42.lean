/-
F42 (C14): WriteCell's index `(row * s.Size.Width) + col` is computed in uint16: on a surface with
more than 65 535 cells an inside write lands in the wrong cell.  Witness: 300×300 (full-size buffer),
(0,250) changes cell 9 464 instead of 75 000.
-/
import VaxisModel.Model.Surface

namespace VaxisModel.Witness.F42
open VaxisModel.Model.Surface

def narrowIdx : Arith := { wideLen := true, wideIdx := false, strictRow := true }

theorem index_wraps : wcIndex narrowIdx (newSurface narrowIdx 300 300) 0 250 = 9464 := by decide +kernel

theorem exact_index : wcIndex exact (newSurface exact 300 300) 0 250 = 75000 := by decide +kernel

end VaxisModel.Witness.F42
