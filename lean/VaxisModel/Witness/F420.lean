/-
F420 (round 4; repaired, /repo ba40b3f) — `resizeImage` and the four `Resize` methods take `img.Bounds().Max` as the size
of the image and read pixels from `(0, 0)`.  For an image whose bounds do not start at the origin — a crop made with
`SubImage` — that is the crop's size PLUS its offset: a 10×10 crop at (10,10) got the cell size of a 20×20 image
(`CellSize()` 20×10 half-block cells in a roomy box instead of 10×5), was drawn shifted behind a blank margin, and a crop
with unequal offsets was scaled with the wrong aspect ratio.  Against "never upscales and preserves the aspect ratio …
for every image size".  Found while widening the source types (a `*image.NRGBA` crop through the streams `halfs | fulls`:
`halfs 6 3 … 8 6 0 0 -1 -1` ⇒ `8 2 …`, oracle `FAIL upscaled to 8x2 cells`; 127 failing lines).
Repair: `resizeImage` first translates such an image to the origin (`originImage`: `Bounds()` and `At` shifted by
`Min`); images that start at the origin are untouched (`Gen.resizeOriginNormalised`).  Replayed by corpus/C20/F420.ops.

The model's images start at the origin by construction; the pre-repair behaviour is the model applied to the wrong
size, which is what the statements below are about.
-/
import VaxisModel.Props.C20

namespace VaxisModel.Witness.F420
open VaxisModel.Model.ImageFit VaxisModel.Spec.Images VaxisModel.Gen.ImageConsts

/-- What the unrepaired code computed for a `w × h` image whose bounds start at `(mx, my)`: the size it measured was
    `Bounds().Max = (mx + w, my + h)`. -/
def unfixedDims (F : FloatOps) (mx my w h boxW boxH cellW cellH : Nat) : Except Panic (Nat × Nat) :=
  resizeDims F (mx + w) (my + h) boxW boxH cellW cellH

/-- A 10×10 crop at (10,10) in a roomy box "fitted" as a 20×20 image … -/
theorem crop_measured_with_offset : unfixedDims exactOps 10 10 10 10 30 30 1 2 = .ok (20, 20) := by rfl

/-- … so "never upscaled" (the result has at most the image's own pixels) fails for the unrepaired measurement … -/
theorem no_upscale_fails_unfixed :
    ¬ ∀ mx my w h boxW boxH : Nat, 0 < w → 0 < h →
      ∀ pw ph, unfixedDims exactOps mx my w h boxW boxH 1 2 = .ok (pw, ph) → NoUpscale pw ph w h := by
  intro hh
  have := hh 10 10 10 10 30 30 (by decide) (by decide) 20 20 crop_measured_with_offset
  revert this
  decide

/-- … and the aspect ratio of a crop with unequal offsets is lost: a 10×10 crop at (30,0) squeezed into 4×4 cells came
    out as 4×1 pixels. -/
theorem aspect_fails_unfixed :
    unfixedDims exactOps 30 0 10 10 4 4 1 2 = .ok (4, 1) ∧ ¬ AspectKept 4 1 10 10 := by
  constructor
  · rfl
  · decide

/-- The current source translates the image to the origin before anything else, so the size `resizeImage` measures is
    the image's own (`Props.C20.no_upscale`, `aspect` then apply to every image, wherever its bounds start). -/
theorem origin_normalised_now : resizeOriginNormalised = true := by decide

end VaxisModel.Witness.F420
