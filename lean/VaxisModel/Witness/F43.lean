import VaxisModel.Props.C15
import VaxisModel.Lemmas.VxfwPrefix

/-! F43 (fixed in /repo by b1816d3): before the fix the Run loop answered a terminal
`vaxis.FocusIn` with `root.HandleEvent(MouseEnter{})` without recording it in
`mouseHandler.lastHits`. A single-widget application: terminal FocusIn, then a mouse event inside
the window: the root widget got MouseEnter twice in a row. Followed by FocusOut instead, the
MouseEnter was never closed by a MouseLeave. The same histories on the current model alternate
and are closed. -/
namespace VaxisModel.Witness.F43
open VaxisModel.Model.Vxfw VaxisModel.Spec.Routing VaxisModel.Lemmas.Vxfw VaxisModel.Props.C15
open VaxisModel.Lemmas

def o : Oracle := ⟨fun _ _ _ _ => .nil, fun _ => false⟩
def t0 : STree := .node 0 10 10 []

/-- Pre-fix code: FocusIn then a mouse event: two MouseEnter in a row. -/
theorem prefix_observed :
    (runEvent o 4 (VxfwPrefix.runFocusIn o 4 (runInit o 4 0 t0)) (.mouse 1 1)).trace =
      [.call 0 .init .target, .draw, .call 0 .mouseEnter .target, .call 0 .mouseEnter .target,
       .call 0 (.mouse 1 1) .target] := by decide

theorem prefix_hover_alternates_fails :
    hoverRun [] (runEvent o 4 (VxfwPrefix.runFocusIn o 4 (runInit o 4 0 t0)) (.mouse 1 1)).trace = none := by
  decide

/-- Pre-fix code: FocusIn then FocusOut: the Enter is never closed. -/
theorem prefix_never_closed :
    hoverRun [] (runEvent o 4 (VxfwPrefix.runFocusIn o 4 (runInit o 4 0 t0)) .focusOut).trace = some [0] := by
  decide

/-- Current code, same histories. -/
theorem fixed_observed :
    (runSteps o 4 (runInit o 4 0 t0) [.ev .focusIn, .ev (.mouse 1 1)]).trace =
      [.call 0 .init .target, .draw, .call 0 .mouseEnter .target, .call 0 .mouseLeave .target,
       .call 0 .mouseEnter .target, .call 0 (.mouse 1 1) .target] := by decide

theorem fixed_closed :
    hoverRun [] (runSteps o 4 (runInit o 4 0 t0) [.ev .focusIn, .ev .focusOut]).trace = some [] := by decide

end VaxisModel.Witness.F43
