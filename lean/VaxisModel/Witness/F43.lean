import VaxisModel.Props.C15

/-! F43: the Run loop answers a terminal `vaxis.FocusIn` with `root.HandleEvent(MouseEnter{})`
and does not record it in `mouseHandler.lastHits`. A single-widget application: terminal FocusIn,
then a mouse event inside the window: the root widget gets MouseEnter twice in a row. Followed
by FocusOut instead, the MouseEnter is never closed by a MouseLeave. -/
namespace VaxisModel.Witness.F43
open VaxisModel.Model.Vxfw VaxisModel.Spec.Routing VaxisModel.Lemmas.Vxfw VaxisModel.Props.C15

def o : Oracle := ⟨fun _ _ _ _ => .nil, fun _ => false⟩
def t0 : STree := .node 0 10 10 []

theorem t0_ok : HitsNodup t0 := by
  intro c r
  simp only [hitsAt, t0, STree.w, STree.h, hitTest, hitKids]
  split <;> simp

theorem observed :
    (runSteps o 4 (runInit o 4 0 t0) [.ev .focusIn, .ev (.mouse 1 1)]).trace =
      [.call 0 .init .target, .draw, .call 0 .mouseEnter .target, .call 0 .mouseEnter .target,
       .call 0 (.mouse 1 1) .target] := by decide

theorem never_closed :
    hoverRun [] (runSteps o 4 (runInit o 4 0 t0) [.ev .focusIn, .ev .focusOut]).trace = some [0] := by decide

theorem hover_alternates_fails : ¬ hover_alternates_full := by
  intro h
  have := h o 4 0 t0 [.ev .focusIn, .ev (.mouse 1 1)] t0_ok (by intro st hst; simp at hst; rcases hst with rfl | rfl <;> trivial)
  rw [observed] at this
  revert this
  decide

end VaxisModel.Witness.F43
