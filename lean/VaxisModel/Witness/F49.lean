import VaxisModel.Model.SimpleList

/-! F49 (fixed in /repo commit 826093b): with the index expressions as they were before the
repair (`SimpleList.rhsUnfixed`) the safety theorem is false; the witnesses are replayed on the
real code from /verif/corpus/C19/F49-*.ops. -/
namespace VaxisModel.Witness.F49
open VaxisModel.Model.SimpleList

def panics (r : Except Panic St) : Bool := match r with | .error _ => true | .ok _ => false

/-- Empty list, `Down`, `Draw`: `items[-1:]`. -/
theorem down_on_empty_panics : panics (run rhsUnfixed (new 0) [.down, .draw 1]) = true := by decide

/-- Empty list drawn into a zero-height window: `items[1:]` of a zero-length slice. -/
theorem empty_zero_height_panics : panics (run rhsUnfixed (new 0) [.draw 0]) = true := by decide

/-- `SetItems(nil)` then `SetItems` of three items leaves the index at −1. -/
theorem setitems_leaves_negative_index :
    (match run rhsUnfixed (new 3) [.setItems 0, .setItems 3] with
      | .ok s => decide (s.index = -1) | .error _ => false) = true := by decide

/-- Hence the safety statement fails for the unrepaired expressions. -/
theorem simple_list_safe_fails_unfixed :
    ¬ ∀ (n : Nat) (ops : List Op), ∃ s, run rhsUnfixed (new n) ops = .ok s := by
  intro h
  obtain ⟨s, hs⟩ := h 0 [.down, .draw 1]
  have := down_on_empty_panics
  rw [hs] at this
  simp [panics] at this

end VaxisModel.Witness.F49
