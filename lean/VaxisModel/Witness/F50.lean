import VaxisModel.Model.Pager

/-! F50 (fixed in /repo commit 19748cc): without the final flush (`layout false`) the pager loses a
last line that has no terminator; replayed on the real code from /verif/corpus/C19/F50-*.ops. -/
namespace VaxisModel.Witness.F50
open VaxisModel.Model.Pager

def a : Ch := ⟨[97], 1⟩
def b : Ch := ⟨[98], 1⟩
def nl : Ch := ⟨[10], 0⟩

/-- "ab" at width 4: no line at all. -/
theorem unterminated_text_lost : layout false 4 [a, b] = [] := by decide

/-- "a\nb": the second line is lost. -/
theorem last_line_lost : (layout false 4 [a, nl, b]).flatten = [a] := by decide

theorem pager_complete_fails_unfixed :
    ¬ ∀ (w : Int) (cs : List Ch), (layout false w cs).flatten = cs.filter (fun c => !c.isNl) := by
  intro h
  have := h 4 [a, b]
  rw [unterminated_text_lost] at this
  revert this
  decide

end VaxisModel.Witness.F50
