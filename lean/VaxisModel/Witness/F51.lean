/-
F51 — the `case sfX == sfY:` arm of resizeImage was a no-op, so an image whose horizontal and
vertical scale factors coincide was returned unscaled: a 64×128 px image (8×8 cells of 8×16 px)
asked to fit a 4×4 box stayed 8×8 cells.  The arm structure below is the one extracted from
image.go before the repair (kept here as a literal); with it the fit statement is false.
-/
import VaxisModel.Lemmas.ImageFit

namespace VaxisModel.Witness.F51
open VaxisModel.Model.ImageFit VaxisModel.Spec.Images VaxisModel.Gen.ImageConsts VaxisModel.Lemmas.ImageFit

/-- Configuration of resizeImage as extracted before the F51 repair. -/
def unfixedCfg : Cfg :=
  ⟨true, true, (.le, .and, .le), [⟨.eq, .none, .none⟩, ⟨.lt, .sfX, .sfX⟩, ⟨.gt, .sfY, .sfY⟩]⟩

/-- Bool observer: the resize succeeded and its result does not fit the box. -/
def exceeds (r : Except Panic (Nat × Nat)) (w h cellW cellH : Nat) : Bool :=
  match r with
  | .ok (pw, ph) => decide (¬ FitsBox pw ph w h cellW cellH)
  | .error _ => false

/-- The witness: 64×128 px, cells of 8×16 px, box 4×4 — returned unscaled (8×8 cells). -/
theorem unfixed_returns_unscaled :
    resizeDimsWith unfixedCfg exactOps 64 128 4 4 8 16 = .ok (64, 128) := by rfl

theorem unfixed_exceeds : exceeds (resizeDimsWith unfixedCfg exactOps 64 128 4 4 8 16) 4 4 8 16 = true := by
  decide +kernel

/-- With the unrepaired arm structure the fit property is false. -/
theorem fit_fails_unfixed : ¬ FitStatement unfixedCfg := by
  intro hfit
  have h := hfit exactOps exactOps_sound 64 128 4 4 8 16 64 128 (by decide) (by decide) (by decide) (by decide)
    unfixed_returns_unscaled
  revert h
  decide

end VaxisModel.Witness.F51
