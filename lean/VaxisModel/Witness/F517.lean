/-
F517 (observation, recorded — outside the property text) — in a window narrower than the prompt plus four
graphemes, `textinput.Draw` shows the cursor at the prompt's end although graphemes lie between the offset and the
cursor: the forward scroll loop stops at `offset = cursor` (cursor visible at the prompt's end), then the "scroll
toward the beginning" step sets `offset = cursor - 4` again, the cell loop breaks at the right edge before it reaches
the grapheme in front of the cursor, and `cursor` keeps its initial value `col`.
Seen on the real code: `ti s=世,世,世,世; draw 6 -` ⇒ `col=0 row=世,世,…` (the cursor is at the end of the text);
`ti s=a,b,a,b; draw 3 -` ⇒ `col=0`.  (One column wider the column is right but outside the window: `draw 7` ⇒ `col=8`.)
The property clause on the drawn cursor column reads "while the text fits the widget"; here it does not fit, so
this is no violation of C17 as stated — `Props.C17Ext.textinput_cursor_scrolled` says what the code does for every
width, `textinput_cursor_at_grapheme_partial` exactly when the cursor is at its grapheme.
corpus/C17/O517-narrow-window-cursor.ops keeps the cases in the correspondence run.
-/
import VaxisModel.Props.C17Ext

namespace VaxisModel.Witness.F517
open VaxisModel.Model.TextInput VaxisModel.Spec.EditorView

/-- Four wide graphemes, cursor at the end, a 6-column window, no prompt: the cursor is drawn in column 0 and the
offset is back at 0. -/
theorem wide_cursor_at_prompt :
    (match draw (fun _ : Nat => 2) ⟨[1, 2, 3, 4], 4, 0, []⟩ [] 6 with
     | .shown m' c => decide (m'.offset = 0 ∧ c = 0)
     | _ => false) = true := by decide

/-- Four narrow graphemes in a 3-column window: the same. -/
theorem narrow_cursor_at_prompt :
    (match draw (fun _ : Nat => 1) ⟨[1, 2, 3, 4], 4, 0, []⟩ [] 3 with
     | .shown m' c => decide (m'.offset = 0 ∧ c = 0)
     | _ => false) = true := by decide

/-- The full statement "the cursor is always drawn at its grapheme" is false. -/
theorem cursor_at_grapheme_full_fails : ¬ VaxisModel.Props.C17Ext.textinput_cursor_at_grapheme_full := by
  intro h
  have hd : draw (fun _ : Nat => 2) ⟨[1, 2, 3, 4], 4, 0, []⟩ [] 6 = .shown ⟨[1, 2, 3, 4], 4, 0, []⟩ 0 := by rfl
  have := h (fun _ : Nat => 2) (fun _ => by decide) ⟨[1, 2, 3, 4], 4, 0, []⟩ [] 6
    ⟨by decide, by decide, by decide⟩ _ 0 0 hd rfl
  revert this
  decide

end VaxisModel.Witness.F517
