/-
F52 (repaired in /repo by `fix: resizing a kitty or sixel image no longer divides by zero …`, round 2) — a zero cell pixel
size (a terminal reporting fewer pixels than columns, e.g. XPixel = 50 for 80 columns, gave `cellPixW = 50/80 = 0`) makes
`resizeImage` divide by zero: the model returns the panic value for every image and box.  Since the repair the callers never
pass a zero (`(*Vaxis).cellPixelSize` ≥ 1: `Props.C20Ext.term_cell_pos`, `no_panic_term`; the block renderers pass the literals
1×2), so these theorems now describe the private function outside its callers' range; the harness still observes the panic when
it calls `resizeImage` directly (`dims … 0 …` lines, model ≡ code only), and corpus/C20/F52.ops (the former end-to-end witness)
passes.
-/
import VaxisModel.Lemmas.ImageFit

namespace VaxisModel.Witness.F52
open VaxisModel.Model.ImageFit VaxisModel.Lemmas.ImageFit

def isPanic (r : Except Panic (Nat × Nat)) : Bool :=
  match r with
  | .error .divideByZero => true
  | .ok _ => false

/-- Zero cell width: panic whatever the image, box, float step and arm structure. -/
theorem zero_cell_width_panics (cfg : Cfg) (F : FloatOps) (wPix hPix w h cellH : Nat) :
    resizeDimsWith cfg F wPix hPix w h 0 cellH = .error .divideByZero := by
  simp [resizeDimsWith, cells, bind, Except.bind]

/-- Zero cell height (positive width): panic as well. -/
theorem zero_cell_height_panics (cfg : Cfg) (F : FloatOps) (wPix hPix w h cellW : Nat) :
    resizeDimsWith cfg F wPix hPix w h cellW 0 = .error .divideByZero := by
  by_cases hc : cellW = 0 <;> simp [resizeDimsWith, cells, bind, Except.bind, hc]

/-- Hence the no-panic statement is false without the hypothesis `0 < cellW`. -/
theorem no_panic_needs_positive_cells :
    ¬ ∀ F wPix hPix w h cellW cellH, ∃ r, resizeDims F wPix hPix w h cellW cellH = .ok r := by
  intro hall
  obtain ⟨r, hr⟩ := hall exactOps 16 16 4 4 0 16
  rw [resizeDims, zero_cell_width_panics] at hr
  cases hr

example : isPanic (resizeDims exactOps 16 16 4 4 0 16) = true := by decide +kernel

end VaxisModel.Witness.F52
