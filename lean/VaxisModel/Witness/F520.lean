/-
F520 (round 4; repaired, /repo 8430012) — a `Resize` that leaves a kitty image without pixels (a box too small for one
pixel row: a 32×1 px image into one 8×16 cell becomes 8×0 px; or a negative box) sets its cell size to zero in a
dimension; the PNG encoder refuses such an image, `k.buf` / `k.uploaded` stay as they are and the terminal keeps the
picture of the previous `Resize`.  `KittyImage.Draw` placed the image anyway — the size test `k.w > w || k.h > h` lets a
1×0 image into any window — and the terminal showed the older 32×1 px picture (4×1 cells) for an image that reports
`CellSize()` 1×0 after `Resize(1, 1)`: what is displayed exceeds the requested box.  Against "Resizing an image for
display yields a cell size that never exceeds the requested box" read with the `Image` interface's "Resizes the image to
fit within the provided area".  Found by the round-4 histories `kitty:refused:*` once the terminal oracle compared the
picture the terminal holds with the image's cell size (`krender … Q=d1@13,6;p1@13,6 … FAIL image 1 placed at 13,6: the
terminal's picture of it is 32x1 px = 4x1 cells, its cell size is 1x0`; 21 failing lines).  Repair: `Draw` does not place
an image whose cell size is zero (`Gen.kittyGates` gains `.zeroSize`), as `Sixel.Draw` refuses an image without data; the
old placement is then deleted by the frame's diff.  Replayed by corpus/C20/F520.ops.
-/
import VaxisModel.Props.C20Ext

namespace VaxisModel.Witness.F520
open VaxisModel.Model.ImageDraw VaxisModel.Gen.ImageConsts VaxisModel.Model.Window

/-- The gates of `KittyImage.Draw` before the repair. -/
def unfixedGates : List Gate := [.encoding, .size .gt .or .gt]

/-- Unrepaired: an image of 1×0 cells (and one of 0×0) is placed in a 3×3 window … -/
theorem zero_size_placed_unfixed :
    drawnWith unfixedGates true false 1 0 (Win.new (.root 0 0 40 20) 13 6 3 3) = true ∧
    drawnWith unfixedGates false false 0 0 (Win.new (.root 0 0 40 20) 13 6 3 3) = true := by decide

/-- … so "an image without cells is never placed" fails for the unrepaired gates … -/
theorem zero_size_not_placed_fails_unfixed :
    ¬ ∀ (hasData encoding : Bool) (iw ih : Int) (win : Win), (iw = 0 ∨ ih = 0) →
      drawnWith unfixedGates hasData encoding iw ih win = false := by
  intro h
  have := h true false 1 0 (Win.new (.root 0 0 40 20) 13 6 3 3) (Or.inr rfl)
  rw [zero_size_placed_unfixed.1] at this
  cases this

/-- … and holds of the current source, for every window, size and image state. -/
theorem zero_size_not_placed_now (hasData encoding : Bool) (iw ih : Int) (win : Win) (h : iw = 0 ∨ ih = 0) :
    drawnWith kittyGates hasData encoding iw ih win = false := by
  have hm : Gate.zeroSize ∈ kittyGates := by decide
  cases hd : drawnWith kittyGates hasData encoding iw ih win with
  | false => rfl
  | true =>
    unfold drawnWith at hd
    rw [List.all_eq_true] at hd
    have := hd _ hm
    rcases h with h | h <;> simp [gateFires, h] at this

end VaxisModel.Witness.F520
