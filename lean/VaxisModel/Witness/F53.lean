import VaxisModel.Lemmas.ConcShutdown

/-! F53 (recorded): `Close()` on the main goroutine while the event queue is full and input is
pending.  The application is not receiving events (its goroutine is inside `Close`), the input
goroutine is blocked in `PostEventBlocking`, the channel from the parser fills up, the parser blocks
in `emit` and never looks at the close signal; `WaitClose` waits for ever.  Replayed on the real
code by the harness op `fullclose`. -/
namespace VaxisModel.Witness.F53
open VaxisModel.Model.Conc VaxisModel.Lemmas.ConcShutdown

/-- Queue of capacity 2, full; four key presses pending; the application has stopped consuming. -/
def s0 : SSys := { qcap := 2, queueLen := 2, consumer := false, inbuf := [some 1, some 1, some 1, some 1] }

def witness : List SLabel :=
  [.parser, .parser, .inputRecv,          -- first key: parsed, handed over; the goroutine now wants to post
   .parser, .parser, .parser, .parser, .parser, .parser,   -- keys two and three fill the channel
   .parser, .parser,                      -- key four: the parser is inside emit
   .callClose, .caller 0, .caller 0, .caller 0, .caller 0, .caller 0,   -- Close: flag, quit event, suspended, signal, DA1; then wait
   .termReply]

theorem reaches_stuck_state :
    (match srun s0 witness with
     | some s => s.stuck && !s.final && s.callers == [{ pc := .waitClosed }] && s.ipc == .posting 1 && s.ppc == .emitting 1
     | none => false) = true := by decide

theorem close_never_returns :
    ∃ s, srun s0 witness = some s ∧ s.final = false ∧
      ∀ l ls, l.internal = true → srun s (l :: ls) = none := by
  cases h : srun s0 witness with
  | none => exact absurd h (by decide)
  | some s =>
    have hs : s.stuck = true ∧ s.final = false := by
      have := reaches_stuck_state
      simp only [h] at this
      simp only [Bool.and_eq_true, Bool.not_eq_true'] at this
      exact ⟨this.1.1.1.1, this.1.1.1.2⟩
    exact ⟨s, rfl, hs.2, fun l ls hl => stuck_forever s hs.1 l ls hl⟩

end VaxisModel.Witness.F53
