import VaxisModel.Lemmas.ConcShutdown

/-! F53 (**fixed**, /repo "fix: Suspend and Close no longer wait for a receiver of the parser's
channel" and "fix: PostEventBlocking returns once Close has completed"): `Close()` on the main
goroutine while the event queue is full and input is pending.  The application is not receiving
events (its goroutine is inside `Close`), the input goroutine is blocked in `PostEventBlocking`, the
channel from the parser fills up, the parser blocks in `emit` and never looked at the close signal;
`WaitClose` waited for ever.  `WaitClose` now discards what the parser still emits, so `Close`
returns; and once `chQuit` is closed the blocked post gives up, so the input goroutine ends too.
Harness ops `fullclose`, `forced kind=full`; corpus/C10/F53-fullclose.ops. -/
namespace VaxisModel.Witness.F53
open VaxisModel.Model.Conc VaxisModel.Lemmas.ConcShutdown

/-- Queue of capacity 2, full; four key presses pending; the application has stopped consuming. -/
def s0 : SSys := { qcap := 2, queueLen := 2, consumer := false, inbuf := [some 1, some 1, some 1, some 1] }

/-- The schedule of the old witness. -/
def witness : List SLabel :=
  [.parser, .parser, .input .recv,        -- first key: parsed, handed over; the goroutine now wants to post
   .parser, .parser, .parser, .parser, .parser, .parser,   -- keys two and three fill the channel
   .parser, .parser,                      -- key four: the parser is inside emit
   .callClose, .caller 0, .caller 0, .caller 0, .caller 0, .caller 0,   -- Close: flag, quit event, suspended, signal, DA1; then wait
   .termReply]

def continuation : List SLabel :=
  [.drain 0, .parser, .parser,            -- room: key four emitted, the parser sees the close signal
   .drain 0, .parser, .parser,            -- EOF emitted, channel closed, `closed` sent
   .caller 0, .caller 0,                  -- WaitClose returns, close(chQuit)
   .input .quit, .input .step,            -- the blocked post gives up, the sequence is handled
   .input .recv, .input .quit, .input .step,   -- what is left in the channel
   .input .recv]                          -- EOF (or the closed channel): the input goroutine returns

theorem reaches_old_stuck_state :
    (match srun s0 witness with
     | some s => s.callers == [{ pc := .waitClosed }] && s.ipc == .posting 1 && s.ppc == .emitting 1 && s.seqs.length == 2 &&
                 s.queueLen == s.qcap && (snext s (.input .step)).isNone && (snext s (.drain 0)).isSome
     | none => false) = true := by decide

/-- `Close` returns and nothing is left: the state is final and at rest, the queue still full, nobody
ever consumed. -/
theorem close_returns :
    (match srun s0 (witness ++ continuation) with
     | some s => s.final && s.quiescent && s.quitCloses == 1 && s.queueLen == s.qcap && !s.consumer
     | none => false) = true := by decide

/-- Without the second repair the input goroutine would stay blocked: before `chQuit` is closed the
`quit` arm of the post is not enabled. -/
theorem post_gives_up_only_after_quit :
    (match srun s0 witness with
     | some s => (snext s (.input .quit)).isNone
     | none => false) = true := by decide

end VaxisModel.Witness.F53
