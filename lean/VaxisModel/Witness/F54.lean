import VaxisModel.Lemmas.EmuWitnessLib
/-! F54 (C06, fixed by aed2e67): CNL/CPL were loops of NEL/RI and scrolled the screen at the margins; ECMA-48/xterm only move the cursor. Corpus: corpus/C06/F54-*.ops. -/
namespace VaxisModel.Witness.F54
open VaxisModel.Model.Emu VaxisModel.Lemmas.EmuWitness

def before : Fixes := { Fixes.current with f54 := false }
theorem cnl_scrolls : disagrees before 2 2 [pr [97], csi1 69 [2]] = true := by decide +kernel
theorem cpl_scrolls : disagrees before 2 2 [pr [97], csi1 70] = true := by decide +kernel
theorem now_agrees : agrees Fixes.current 2 2 [pr [97], csi1 69 [2]] = true ∧ agrees Fixes.current 2 2 [pr [97], csi1 70] = true := by decide +kernel
end VaxisModel.Witness.F54
