#!/bin/sh
# Build the verification framework from files on disk only (offline).
set -e
cd "$(dirname "$0")"
export GOFLAGS=-mod=mod GOPROXY=off GOSUMDB=off GOTOOLCHAIN=local CGO_ENABLED=0
REPO=${VERIF_REPO:-/repo}
mkdir -p bin work evidence replay lean/VaxisModel/Gen
(cd extract && go build -o ../bin/extract .)
./bin/extract "$REPO" lean/VaxisModel/Gen
cp "$REPO/go.sum" harness/go.sum
(cd harness && go build -tags verif -o ../bin/vxh ./cmd/vxh)
(cd lean && lake build VaxisModel vxdrv)
echo setup-ok
