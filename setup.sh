#!/bin/sh
# Build the verification framework from files on disk only (offline): the extractors, Gen files,
# harness binaries, theorem modules and driver executables that the registered checks use.
set -e
cd "$(dirname "$0")"
export GOFLAGS=-mod=mod GOPROXY=off GOSUMDB=off GOTOOLCHAIN=local CGO_ENABLED=0
REPO=${VERIF_REPO:-/repo}
mkdir -p bin work evidence replay lean/VaxisModel/Gen
python3 tools/mkroots.py
lists=$(python3 -c "
import sys; sys.path.insert(0, 'checks')
from propcfg import PROPS
ex, dr, mo = set(), set(), set()
for c in PROPS.values():
    ex |= set(c.get('extractors', [])); dr |= set(c['drivers']); mo |= set(c['modules'])
print(' '.join(sorted(ex))); print(' '.join(sorted(dr))); print(' '.join(sorted(mo) + ['vxdrv_' + d for d in sorted(dr)]))")
extractors=$(echo "$lists" | sed -n 1p)
drivers=$(echo "$lists" | sed -n 2p)
targets=$(echo "$lists" | sed -n 3p)
for x in $extractors; do
  (cd extract && go build -o ../bin/extract-"$x" ./cmd/"$x")
  ./bin/extract-"$x" "$REPO" lean/VaxisModel/Gen
done
cp "$REPO/go.sum" harness/go.sum
for x in $drivers; do
  (cd harness && go build -tags verif -o ../bin/vxh-"$x" ./cmd/"$x")
done
(cd lean && lake build $targets)
echo setup-ok
