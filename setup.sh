#!/bin/sh
# Build the verification framework from files on disk only (offline): extractors, Gen files,
# harness binaries, the Lean library (all theorems) and one driver executable per stream.
set -e
cd "$(dirname "$0")"
export GOFLAGS=-mod=mod GOPROXY=off GOSUMDB=off GOTOOLCHAIN=local CGO_ENABLED=0
REPO=${VERIF_REPO:-/repo}
mkdir -p bin work evidence replay lean/VaxisModel/Gen
python3 tools/mkroots.py
for d in extract/cmd/*/; do
  x=$(basename "$d")
  (cd extract && go build -o ../bin/extract-"$x" ./cmd/"$x")
  ./bin/extract-"$x" "$REPO" lean/VaxisModel/Gen
done
cp "$REPO/go.sum" harness/go.sum
for d in harness/cmd/*/; do
  x=$(basename "$d")
  (cd harness && go build -tags verif -o ../bin/vxh-"$x" ./cmd/"$x")
done
# Lean: every theorem module and driver executable that a registered check uses (a stray helper file
# that no check imports cannot break the set-up)
targets=$(python3 -c "
import sys; sys.path.insert(0, 'checks')
from propcfg import PROPS
t = []
for c in PROPS.values():
    t += c['modules'] + ['vxdrv_' + d for d in c['drivers']]
print(' '.join(sorted(set(t))))")
(cd lean && lake build $targets)
echo setup-ok
