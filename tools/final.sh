#!/bin/sh
# tools/final.sh: end-of-round integration run on the unchanged tree (no builder may be editing):
#   /verif itself : setup.sh, then every quick check with seed 1 (writes the evidence that gets committed)
#   copy B        : quick checks with seeds 2 and 3
#   copy C        : thorough tier of every property
#   copy D        : sweep of every seeded change (tools/seedsweep.py), merged into seeded/*/meta.json afterwards
# Logs under /tmp/final/. Nothing a registered command needs is kept there.
set -u
mkdir -p /tmp/final; cd /verif
P="01 02 03 04 05 06 07 08 09 10 11 12 13 14 15 16 17 18 19 20"
(./setup.sh > /tmp/final/setup.log 2>&1; echo "setup exit=$?" > /tmp/final/A.log
 for i in $P; do s=$(date +%s); ./check C$i --tier quick > /tmp/final/q1-C$i.log 2>&1; echo "seed=1 C$i exit=$? $(( $(date +%s)-s ))s" >> /tmp/final/A.log; done
 for d in B C D; do sh tools/mkcopy.sh /tmp/final/$d > /dev/null; done
 (cd /tmp/final/B/verif; for seed in 2 3; do for i in $P; do s=$(date +%s); VERIF_SEED=$seed ./check C$i --tier quick > /tmp/final/q$seed-C$i.log 2>&1; echo "seed=$seed C$i exit=$? $(( $(date +%s)-s ))s" >> /tmp/final/B.log; done; done; echo done >> /tmp/final/B.log) &
 (cd /tmp/final/C/verif; for i in $P; do s=$(date +%s); ./check C$i --tier thorough > /tmp/final/t-C$i.log 2>&1; echo "thorough C$i exit=$? $(( $(date +%s)-s ))s" >> /tmp/final/C.log; done; echo done >> /tmp/final/C.log) &
 (cd /tmp/final/D/verif; python3 tools/seedsweep.py --verif /tmp/final/D/verif --out /tmp/final/sweep.jsonl > /tmp/final/D.log 2>&1; echo done >> /tmp/final/D.log) &
 wait; echo all-done >> /tmp/final/A.log) &
