#!/bin/sh
# tools/mkcopy.sh <dir>: a working copy of /verif's committed HEAD under <dir>/verif with /verif's build output
# (lean/.lake, bin) carried over the first time, so that sweeps and seeded-change tests (VERIF_DIR=<dir>/verif)
# neither hold /verif's build lock nor see builders' uncommitted edits. Re-running refreshes the sources to HEAD.
D=$1/verif; mkdir -p "$D"
[ -d "$D/lean/.lake" ] || { mkdir -p "$D/lean"; rsync -a /verif/lean/.lake "$D/lean/"; rsync -a /verif/bin "$D/"; }
git -C /verif archive HEAD | tar -x -C "$D"
mkdir -p "$D/lean/VaxisModel/Gen" "$D/work" "$D/evidence" "$D/replay"
rsync -a /verif/lean/VaxisModel/Gen/ "$D/lean/VaxisModel/Gen/"
cp /repo/go.sum "$D/harness/go.sum"
echo "copy at $D = $(git -C /verif rev-parse --short HEAD)"
