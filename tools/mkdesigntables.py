#!/usr/bin/env python3
"""Regenerate the generated tables of DESIGN.md (between the BEGIN/END GENERATED markers) from
known-findings*.json, seeded/*/meta.json, checks/props/*.py and evidence/*.json."""
import json, os, glob, re, sys
V = os.path.dirname(os.path.dirname(os.path.abspath(__file__)))
sys.path.insert(0, os.path.join(V, "checks"))
from propcfg import PROPS

def load_known():
    k = {"findings": [], "fixed": []}
    for p in [os.path.join(V, "known-findings.json")] + sorted(glob.glob(os.path.join(V, "known-findings.d", "*.json"))):
        j = json.load(open(p))
        k["findings"] += j.get("findings", []); k["fixed"] += j.get("fixed", [])
    return k

def esc(s): return str(s).replace("|", "\\|").replace("\n", " ")

out = []
k = load_known()
out.append("### Genuine defects repaired (`fix:` commits in /repo)\n")
out.append("| property | id | commit | what failed |\n|---|---|---|---|")
for f in sorted(k["fixed"], key=lambda f: (f["property"], f["id"])):
    out.append(f"| {f['property']} | {f['id']} | {esc(f.get('commit',''))} | {esc(f['what'])} |")
out.append("\n### Known findings (recorded, not repaired; matched specifically, printed as KNOWN-FINDING)\n")
out.append("| property | id | what fails | match |\n|---|---|---|---|")
for f in sorted(k["findings"], key=lambda f: (f["property"], f["id"])):
    out.append(f"| {f['property']} | {f['id']} | {esc(f['what'])} | `{esc(json.dumps(f.get('match', {})))}` |")
out.append("\n### Seeded changes (written by fresh sub-agents from the property text only) and what catches them\n")
out.append("| seeded id | property | change | needs | detected |\n|---|---|---|---|---|")
for d in sorted(glob.glob(os.path.join(V, "seeded", "*", "meta.json"))):
    m = json.load(open(d))
    det = m.get("detected", {})
    out.append(f"| {m.get('seeded_id', os.path.basename(os.path.dirname(d)))} | {m.get('property')} | {esc(m.get('summary',''))[:300]} | {esc(m.get('needs',''))[:300]} | {esc(det.get('tier',''))}: {esc(det.get('how',''))} |")
out.append("\n### Checks: theorems and coverage of the last committed run\n")
out.append("| property | theorem modules | theorems checked | drivers | cases (quick) |\n|---|---|---|---|---|")
for pid in sorted(PROPS):
    c = PROPS[pid]
    ev = {}
    p = os.path.join(V, "evidence", pid + ".json")
    if os.path.exists(p):
        try: ev = json.load(open(p))
        except Exception: ev = {}
    cov = ev.get("coverage", {})
    out.append(f"| {pid} | {', '.join(m.split('.')[-1] for m in c['modules'])} | {cov.get('discharged','?')}/{cov.get('obligations','?')} | {', '.join(c['drivers'])} | {cov.get('evaluations','?')} ({ev.get('tier','?')}) |")
out.append("\n### What each check claims (level_text / level_note of checks/props/Cxx.py, as in MANIFEST.json)\n")
for pid in sorted(PROPS):
    c = PROPS[pid]
    out.append(f"* **{pid}** — {c.get('level_text','')}\n  *Assumed / not covered:* {c.get('level_note','')}")
txt = "\n".join(out) + "\n"
p = os.path.join(V, "DESIGN.md")
s = open(p).read()
b, e = "<!-- BEGIN GENERATED TABLES -->", "<!-- END GENERATED TABLES -->"
if b in s and e in s:
    s = s[:s.index(b) + len(b)] + "\n" + txt + s[s.index(e):]
    open(p, "w").write(s)
    print("DESIGN.md tables regenerated")
else:
    print(txt)
