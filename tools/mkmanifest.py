#!/usr/bin/env python3
"""Regenerate /verif/MANIFEST.json from checks/propcfg.py (keeps it valid and current)."""
import json, os, sys, subprocess
V = os.path.dirname(os.path.dirname(os.path.abspath(__file__)))
sys.path.insert(0, os.path.join(V, "checks"))
from propcfg import PROPS, NOT_CLAIMED
ids = [json.loads(l)["id"] for l in open(os.path.join(V, "properties.jsonl"))]
hooks = subprocess.run(["git", "-C", "/repo", "log", "--format=%H %s"], capture_output=True, text=True).stdout.splitlines()
hook_commits = [l.split()[0] for l in hooks if " verif hooks" in l or l.split(" ", 1)[1].startswith("verif")]
checks = []
for pid in ids:
    if pid not in PROPS: continue
    c = PROPS[pid]
    checks.append({
        "property_id": pid,
        "quick_cmd": f"./check {pid} --tier quick",
        "thorough_cmd": f"./check {pid} --tier thorough",
        "evidence_file": f"/verif/evidence/{pid}.json",
        "replay_cmd_template": f"./check {pid} --replay {{path}}",
        "engine": "lean4-proof+correspondence",
        "level_claimed": {"category": "proof", "text": c.get("level_text", "Lean 4 theorems over an executable model of the code, tied to the source by a correspondence check (in progress; see notes)"), "design_ref": c.get("design_ref", "DESIGN.md §4 " + pid)},
        "level_note": c.get("level_note", "see DESIGN.md and notes/%s.md" % pid),
        "technique": c.get("technique", "Lean 4 theorems over an executable model; model tied to source by regenerated tables and a differential correspondence check"),
    })
m = {
    "version": 1,
    "setup_cmd": "./setup.sh",
    "hooks": {
        "guard": "verif",
        "enable": "go build -tags verif (files *_verif*.go / verif_hooks*.go carry //go:build verif)",
        "baseline_off_cmd": "cd /repo && GOFLAGS=-mod=mod GOPROXY=off GOSUMDB=off go test -vet=off -count=1 -timeout 25m ./...",
        "source_commits": hook_commits,
        "add_only": True,
    },
    "engines": [{"name": "lean4-proof+correspondence", "path": "/verif/check",
                 "serves_properties": [c["property_id"] for c in checks],
                 "kind_free_text": "Lean 4 model + theorems (lake build, #print axioms audit, leanchecker in thorough); go/ast extractor regenerates Gen/*.lean every run; Go harness runs real code, Lean driver vxdrv runs model and property oracle on the same cases"}],
    "checks": checks,
    "notes": "See DESIGN.md. A broken proof obligation or correspondence triggers a search for a failing input; VIOLATION lines end with no-failing-input-found when none is found.",
    "not_applicable": [{"property_id": pid, "reason": NOT_CLAIMED.get(pid, "not yet built in this round (in progress; see DESIGN.md §9 build order)")} for pid in ids if pid not in PROPS],
}
json.dump(m, open(os.path.join(V, "MANIFEST.json"), "w"), indent=1)
print("checks:", [c["property_id"] for c in checks])
