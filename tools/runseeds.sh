#!/bin/sh
# tools/runseeds.sh "dir id props..." …  — each argument is one seedtest job; jobs run one after the
# other under a lock (several invocations queue up), logs in /tmp/seed-<id>.log
exec 9>/tmp/seedlock; flock 9
for j in "$@"; do set -- $j; id=$2; sh /verif/tools/seedtest.sh "$@" > /tmp/seed-$id.log 2>&1; python3 /verif/tools/seedmeta.py $id > /tmp/seedmeta-$id.log 2>&1; done
