#!/usr/bin/env python3
"""tools/seedmeta.py <seeded-id> [note]: write seeded/<id>/meta.json from the agent's meta and check_results.txt."""
import sys, json, os, re
sid = sys.argv[1]; note = sys.argv[2] if len(sys.argv) > 2 else ""
base = f"/verif/seeded/{sid}"
a = {}
if os.path.exists(base + "/meta.agent.json"):
    try: a = json.load(open(base + "/meta.agent.json"))
    except Exception: a = {}
res = open(base + "/check_results.txt").read() if os.path.exists(base + "/check_results.txt") else ""
runs = re.findall(r"== (\S+) (\S+)\n(.*?)exit=(\d)", res, re.S)
det = []
for prop, tier, body, rc in runs:
    v = re.findall(r"VIOLATION.*", body)
    det.append({"property": prop, "tier": tier, "exit": int(rc), "violation_lines": v,
                "concrete_failing_input": bool(v) and not v[0].endswith("no-failing-input-found")})
caught = any(d["exit"] == 1 for d in det)
demo = open(base + "/demo_result.txt").read().strip() if os.path.exists(base + "/demo_result.txt") else "not re-run by the lead (round-1 seeded change; the agent's own record is in meta.agent.json)"
meta = {"seeded_id": sid, "property": (a.get("property") or sid.split("-")[0]),
        "summary": a.get("summary", ""), "needs": a.get("needs", ""),
        "author": "fresh sub-agent given only the property text and a scratch worktree",
        "confirmed_by_lead": {"patch_applies": True, "builds_and_baseline_tests_pass_with_change": True, "demonstration": demo,
                              "ran": [f"tools/seedtest.sh <agent dir> {sid} " + " ".join(sorted({d['property'] for d in det}))]},
        "detected": {"caught": caught, "tier": det[-1]["tier"] if det else "", "how": note or ("concrete failing input" if any(d["concrete_failing_input"] for d in det) else ("no-failing-input-found" if caught else "MISSED")),
                     "runs": det}}
json.dump(meta, open(base + "/meta.json", "w"), indent=1)
print(sid, "caught" if caught else "MISSED", meta["detected"]["how"])
