#!/bin/sh
# tools/seedprep.sh Cxx … : scratch worktree /tmp/wt-Cxx of /repo HEAD + prompt /tmp/mutant-Cxx.txt
for p in "$@"; do
git -C /repo worktree add -f --detach /tmp/wt-$p HEAD >/dev/null 2>&1 && echo "wt $p ok"
python3 - "$p" <<'PY'
import sys,json
p=sys.argv[1]
for l in open('/verif/properties.jsonl'):
    q=json.loads(l)
    if q['id']==p: prop=q
json.dump({k:prop[k] for k in ('id','title','statement','quantifier','why_tests_cant','anchors')},open(f'/tmp/prop-{p}.json','w'),indent=1)
t=open('/verif/tools/mutant-prompt.txt').read()
txt=f"Title: {prop['title']}\nStatement: {prop['statement']}\nQuantifier: {prop['quantifier']['text']}\nAnchored in files: {', '.join(prop['anchors']['files'])}\nMechanisms: " + "; ".join(f"{m['name']} ({m['where']})" for m in prop['anchors']['mechanism'])
t=t.replace('__WT__',f'/tmp/wt-{p}').replace('__PROP__',f'/tmp/prop-{p}.json').replace('__PROPTEXT__',txt).replace('__ID__',p)
open(f'/tmp/mutant-{p}.txt','w').write(t)
PY
done
