#!/bin/sh
# tools/seedprep2.sh Cxx … : like seedprep.sh, for a further round: worktree /tmp/wt-Cxx, prompt /tmp/mutant-Cxx.txt
# telling the agent which changes earlier testers already made (their summaries only), deliverables /tmp/mut-Cxx-{3,4}
for p in "$@"; do
rm -rf /tmp/wt-$p; git -C /repo worktree prune
sh /verif/tools/seedprep.sh $p
python3 - "$p" <<'PY'
import sys,json,glob,os
p=sys.argv[1]
prev=[]
for d in sorted(glob.glob(f'/verif/seeded/{p}-m*')):
    try: prev.append(json.load(open(d+'/meta.json'))['summary'][:400])
    except Exception: pass
t=open(f'/tmp/mutant-{p}.txt').read()
t=t.replace(f'mut-{p}-k/', f'mut-{p}-k/').replace('k ∈ {1,2}','k ∈ {3,4}')
if prev:
    t+="\n\nEarlier testers already made the following changes; yours must be DIFFERENT (other functions / other mechanisms of the property, ideally clauses of the statement not touched yet):\n"+"\n".join(f"  - {s}" for s in prev)+"\n"
open(f'/tmp/mutant-{p}.txt','w').write(t)
PY
done
