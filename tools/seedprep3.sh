#!/bin/sh
# tools/seedprep3.sh <k1> <k2> Cxx … : like seedprep2.sh for any further round: worktree /tmp/wt-Cxx, prompt
# /tmp/mutant-Cxx.txt telling the agent which changes earlier testers already made (summaries only),
# deliverables /tmp/mut-Cxx-{k1,k2}
k1=$1; k2=$2; shift 2
for p in "$@"; do
git -C /repo worktree remove --force /tmp/wt-$p 2>/dev/null; rm -rf /tmp/wt-$p; git -C /repo worktree prune
sh /verif/tools/seedprep.sh $p
python3 - "$p" "$k1" "$k2" <<'PY'
import sys,json,glob,os
p,k1,k2=sys.argv[1:4]
prev=[]
for d in sorted(glob.glob(f'/verif/seeded/{p}-m*')):
    try: prev.append(json.load(open(d+'/meta.json'))['summary'][:400])
    except Exception: pass
t=open(f'/tmp/mutant-{p}.txt').read()
t=t.replace('k ∈ {1,2}','k ∈ {%s,%s}'%(k1,k2))
if prev:
    t+="\n\nEarlier testers already made the following changes; yours must be DIFFERENT (other functions / other mechanisms of the property, ideally clauses of the statement not touched yet; prefer changes whose effect needs a particular history, interleaving, crash point or two cooperating sites):\n"+"\n".join(f"  - {s}" for s in prev)+"\n"
open(f'/tmp/mutant-{p}.txt','w').write(t)
PY
done
