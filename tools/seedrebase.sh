#!/bin/sh
# tools/seedrebase.sh <seeded-id>…: a seeded patch that no longer applies to /repo's HEAD (the code around it was
# repaired or got yield points since) is re-applied with a three-way merge in a scratch worktree; on success the
# original is kept as patch.orig.diff and patch.diff becomes the same change against HEAD. Conflicts are left alone.
for id in "$@"; do
  d=/verif/seeded/$id; w=/tmp/wt-rebase-$id
  git -C /repo worktree remove --force $w 2>/dev/null; rm -rf $w
  git -C /repo worktree add -f --detach $w HEAD >/dev/null 2>&1 || { echo "$id worktree-failed"; continue; }
  if (cd $w && git apply --check "$d/patch.diff" 2>/dev/null); then echo "$id applies-as-is"
  elif (cd $w && git apply --3way "$d/patch.diff" >/dev/null 2>&1 && ! git diff --name-only --diff-filter=U | grep -q .); then
    (cd $w && git reset -q && git diff > /tmp/rebased-$id.diff)
    if [ -s /tmp/rebased-$id.diff ] && (cd $w && export GOFLAGS=-mod=mod GOPROXY=off GOSUMDB=off GOTOOLCHAIN=local && go build ./... 2>/dev/null); then
      [ -f "$d/patch.orig.diff" ] || cp "$d/patch.diff" "$d/patch.orig.diff"
      cp /tmp/rebased-$id.diff "$d/patch.diff"; echo "$id rebased"
    else echo "$id rebase-does-not-build"; fi
  else echo "$id conflict"; fi
  git -C /repo worktree remove --force $w 2>/dev/null; rm -rf $w /tmp/rebased-$id.diff
done
git -C /repo worktree prune
