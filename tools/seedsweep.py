#!/usr/bin/env python3
"""tools/seedsweep.py [--verif DIR] [--out FILE] [--only ID,ID…] [--props-from-meta]

Re-runs the registered checks against every seeded change under <DIR>/seeded/*/patch.diff
(DIR defaults to the directory above this file; a *copy* of /verif can be used so that a sweep
does not hold /verif's build lock). For each change: scratch copy of /repo's HEAD under /tmp,
patch applied, `./check P --tier quick` for the property it breaks and every property that caught
it before, `--tier thorough` when quick stays silent; scratch copy removed. One JSON line per
change is appended to --out (default <DIR>/work/seedsweep.jsonl); nothing under seeded/ is edited
(tools/seedsweep_merge.py writes the results into the meta.json files).
"""
import sys, os, json, glob, subprocess, shutil, re, time, argparse

ap = argparse.ArgumentParser()
ap.add_argument("--verif", default=os.path.dirname(os.path.dirname(os.path.abspath(__file__))))
ap.add_argument("--out")
ap.add_argument("--only", default="")
ap.add_argument("--quick-only", action="store_true")
a = ap.parse_args()
V = a.verif
out = a.out or os.path.join(V, "work", "seedsweep.jsonl")
os.makedirs(os.path.dirname(out), exist_ok=True)
env = dict(os.environ, GOFLAGS="-mod=mod", GOPROXY="off", GOSUMDB="off", GOTOOLCHAIN="local", CGO_ENABLED="0")
only = set(x for x in a.only.split(",") if x)
head = subprocess.run(["git", "-C", "/repo", "rev-parse", "HEAD"], stdout=subprocess.PIPE, text=True).stdout.strip()

for d in sorted(glob.glob(os.path.join(V, "seeded", "*"))):
    sid = os.path.basename(d)
    if only and sid not in only: continue
    if not os.path.exists(d + "/patch.diff"): continue
    try: meta = json.load(open(d + "/meta.json"))
    except Exception: meta = {}
    props = [meta.get("property") or sid.split("-")[0]]
    for r in meta.get("detected", {}).get("runs", []):
        if r.get("exit") == 1 and r["property"] not in props: props.append(r["property"])
    S = f"/tmp/vx-sweep-{sid}"
    shutil.rmtree(S, ignore_errors=True); os.makedirs(S)
    subprocess.run(f"git -C /repo archive HEAD | tar -x -C {S}", shell=True, check=True)
    rec = {"seeded_id": sid, "repo_head": head, "time": time.strftime("%Y-%m-%dT%H:%M:%SZ", time.gmtime()), "runs": []}
    p = subprocess.run(["git", "apply", "--unsafe-paths", "--directory=" + S, d + "/patch.diff"], cwd=S, stdout=subprocess.PIPE, stderr=subprocess.STDOUT, text=True)
    if p.returncode != 0:
        p = subprocess.run(f"patch -d {S} -p1 -s < {d}/patch.diff", shell=True, stdout=subprocess.PIPE, stderr=subprocess.STDOUT, text=True)
    rec["patch_applies"] = p.returncode == 0
    if not rec["patch_applies"]:
        rec["patch_error"] = p.stdout[-600:]
    else:
        b = subprocess.run("go build ./... 2>&1 | tail -5", shell=True, cwd=S, env=env, stdout=subprocess.PIPE, text=True)
        rec["builds"] = b.stdout.strip() == ""
        for P in props:
            for tier in (["quick"] if a.quick_only else ["quick", "thorough"]):
                t0 = time.time()
                try:
                    r = subprocess.run(["./check", P, "--tier", tier], cwd=V, env=dict(env, VERIF_REPO=S), stdout=subprocess.PIPE,
                                       stderr=subprocess.STDOUT, text=True, timeout=2400)
                    rc, txt = r.returncode, r.stdout
                except subprocess.TimeoutExpired as e:
                    rc, txt = -1, (e.stdout or b"").decode("utf-8", "replace") if isinstance(e.stdout, bytes) else (e.stdout or "")
                v = re.findall(r"^VIOLATION.*$", txt, re.M)
                rec["runs"].append({"property": P, "tier": tier, "exit": rc, "seconds": round(time.time() - t0),
                                    "violation_lines": v[:5],
                                    "concrete_failing_input": bool(v) and any(not x.rstrip().endswith("no-failing-input-found") for x in v),
                                    "tail": txt[-1500:] if rc not in (0, 1) else ""})
                if rc == 1: break
    shutil.rmtree(S, ignore_errors=True)
    rec["caught"] = any(r["exit"] == 1 for r in rec["runs"])
    rec["concrete"] = any(r["exit"] == 1 and r["concrete_failing_input"] for r in rec["runs"])
    open(out, "a").write(json.dumps(rec) + "\n")
    print(sid, "caught" if rec["caught"] else "MISSED", "concrete" if rec["concrete"] else "", [(r["property"], r["tier"], r["exit"], r["seconds"]) for r in rec["runs"]], flush=True)
