#!/usr/bin/env python3
"""tools/seedsweep_merge.py <sweep.jsonl>…: write the results of tools/seedsweep.py into seeded/<id>/meta.json.
The previous `detected` block is kept under `detected_earlier` (a list, oldest first); `detected` becomes the
result of the sweep (which commit of /repo, which tier caught it, whether a concrete failing input was reported)."""
import sys, json, os
V = os.path.dirname(os.path.dirname(os.path.abspath(__file__)))
last = {}
for fn in sys.argv[1:]:                      # several sweep files: a later record replaces an earlier one,
    for l in open(fn):                       # except that a record whose patch applied is never replaced by one whose patch did not
        l = l.strip()
        if l:
            r = json.loads(l)
            if r["seeded_id"] in last and last[r["seeded_id"]].get("patch_applies") and not r.get("patch_applies"): continue
            last[r["seeded_id"]] = r
for sid, r in sorted(last.items()):
    p = os.path.join(V, "seeded", sid, "meta.json")
    if not os.path.exists(p): continue
    m = json.load(open(p))
    if not r.get("patch_applies", False):
        m["resweep_note"] = f"patch no longer applies to /repo {r['repo_head'][:7]} (the code it changes was repaired or rewritten since): {r.get('patch_error','')[:200]}"
        json.dump(m, open(p, "w"), indent=1); print(sid, "patch no longer applies"); continue
    old = m.get("detected")
    if old:
        m.setdefault("detected_earlier", []).append(old)
    hit = [x for x in r["runs"] if x["exit"] == 1]
    how = ("concrete failing input" if r["concrete"] else "no-failing-input-found (broken obligation or correspondence named in the replay)") if r["caught"] else "MISSED"
    m["detected"] = {"caught": r["caught"], "tier": (hit[0]["tier"] if hit else (r["runs"][-1]["tier"] if r["runs"] else "")), "how": how,
                     "by": sorted({x["property"] for x in hit}), "repo_head": r["repo_head"], "when": r["time"],
                     "runs": [{k: x[k] for k in ("property", "tier", "exit", "seconds", "violation_lines", "concrete_failing_input")} for x in r["runs"]]}
    m.pop("resweep_note", None)
    json.dump(m, open(p, "w"), indent=1)
    print(sid, "caught" if r["caught"] else "MISSED", how)
