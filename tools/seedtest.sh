#!/bin/sh
# tools/seedtest.sh <mutant-dir> <seeded-id> <property> [more properties…]
# Verifies a seeded change (patch.diff applies, library builds, baseline tests pass), then runs the
# registered checks against a scratch copy of /repo with the change applied (VERIF_REPO), quick first,
# thorough if quick stays silent. Stores everything under /verif/seeded/<seeded-id>/.
set -u
M=$1; ID=$2; shift 2
export GOFLAGS=-mod=mod GOPROXY=off GOSUMDB=off GOTOOLCHAIN=local CGO_ENABLED=0
S=/tmp/vx-seed-$ID
OUT=/verif/seeded/$ID
rm -rf "$S"; mkdir -p "$OUT" "$S"
# committed HEAD of /repo (not the working tree: builders may have uncommitted edits there)
git -C /repo archive HEAD | tar -x -C "$S"
git -C /repo rev-parse HEAD > "$OUT"/repo_head.txt
cp "$M"/patch.diff "$OUT"/patch.diff
for f in "$M"/demo_test.go "$M"/demo "$M"/*.go; do [ -e "$f" ] && cp -r "$f" "$OUT"/ 2>/dev/null; done
[ -f "$M"/meta.json ] && cp "$M"/meta.json "$OUT"/meta.agent.json
# demonstration: must pass on the unchanged copy and fail with the change (meta.json: demo_dir, demo_cmd)
DD=$(python3 -c "import json,sys; m=json.load(open('$M/meta.json')); print(m.get('demo_dir','') or '')" 2>/dev/null)
DC=$(python3 -c "import json,sys; m=json.load(open('$M/meta.json')); print(m.get('demo_cmd','') or '')" 2>/dev/null)
demo_run() { (cd "$S" && timeout 600 sh -c "$DC") > "$OUT"/demo_$1.txt 2>&1; echo $?; }
if [ -n "$DC" ] && [ -n "$DD" ]; then
  if [ -d "$M"/demo ]; then cp -r "$M"/demo "$S"/"$DD"/; else cp "$M"/demo_test.go "$S"/"$DD"/zz_demo_test.go; fi
  rc0=$(demo_run without_change)
else rc0=skip; fi
if ! (cd "$S" && git apply --unsafe-paths --directory="$S" "$OUT"/patch.diff 2>/dev/null || patch -d "$S" -p1 -s < "$OUT"/patch.diff); then echo "PATCH-FAILED"; rm -rf "$S"; exit 2; fi
if [ "$rc0" != skip ]; then
  rc1=$(demo_run with_change)
  if [ -d "$M"/demo ]; then rm -rf "$S"/"$DD"/demo; else rm -f "$S"/"$DD"/zz_demo_test.go; fi
  echo "DEMO without_change exit=$rc0 with_change exit=$rc1" | tee "$OUT"/demo_result.txt
  if [ "$rc0" != 0 ] || [ "$rc1" = 0 ]; then echo "DEMO-NOT-CONFIRMED"; fi
else echo "DEMO skipped (no demo_dir/demo_cmd in meta.json)" | tee "$OUT"/demo_result.txt; fi
(cd "$S" && go build ./... && go test -vet=off -count=1 ./... 2>&1 | grep -v "no test files" | tail -8) > "$OUT"/baseline_with_change.txt 2>&1
if grep -q "^FAIL\|^---\|cannot\|undefined" "$OUT"/baseline_with_change.txt; then echo "BASELINE-FAILS-WITH-CHANGE"; cat "$OUT"/baseline_with_change.txt; fi
: > "$OUT"/check_results.txt
for P in "$@"; do
  echo "== $P quick" >> "$OUT"/check_results.txt
  (cd "${VERIF_DIR:-/verif}" && VERIF_REPO="$S" ./check "$P" --tier quick) >> "$OUT"/check_results.txt 2>&1; rc=$?
  echo "exit=$rc" >> "$OUT"/check_results.txt
  if [ $rc -eq 0 ]; then
    echo "== $P thorough" >> "$OUT"/check_results.txt
    (cd "${VERIF_DIR:-/verif}" && VERIF_REPO="$S" timeout 1500 ./check "$P" --tier thorough) >> "$OUT"/check_results.txt 2>&1; rc=$?
    echo "exit=$rc" >> "$OUT"/check_results.txt
  fi
  for r in $(grep -o 'replay=[^ ]*' "$OUT"/check_results.txt | cut -d= -f2 | sort -u); do [ -f "$r" ] && cp "$r" "$OUT"/ ; done
done
rm -rf "$S"
grep -E "^== |VIOLATION|exit=|KNOWN" "$OUT"/check_results.txt
