#!/bin/sh
# tools/seedtest.sh <mutant-dir> <seeded-id> <property> [more properties…]
# Verifies a seeded change (patch.diff applies, library builds, baseline tests pass), then runs the
# registered checks against a scratch copy of /repo with the change applied (VERIF_REPO), quick first,
# thorough if quick stays silent. Stores everything under /verif/seeded/<seeded-id>/.
set -u
M=$1; ID=$2; shift 2
export GOFLAGS=-mod=mod GOPROXY=off GOSUMDB=off GOTOOLCHAIN=local CGO_ENABLED=0
S=/tmp/vx-seed-$ID
OUT=/verif/seeded/$ID
rm -rf "$S"; mkdir -p "$OUT"
rsync -a --exclude .git /repo/ "$S"/
cp "$M"/patch.diff "$OUT"/patch.diff
for f in "$M"/demo_test.go "$M"/demo "$M"/*.go; do [ -e "$f" ] && cp -r "$f" "$OUT"/ 2>/dev/null; done
[ -f "$M"/meta.json ] && cp "$M"/meta.json "$OUT"/meta.agent.json
if ! (cd "$S" && git apply --unsafe-paths --directory="$S" "$OUT"/patch.diff 2>/dev/null || patch -d "$S" -p1 -s < "$OUT"/patch.diff); then echo "PATCH-FAILED"; rm -rf "$S"; exit 2; fi
(cd "$S" && go build ./... && go test -vet=off -count=1 ./... 2>&1 | grep -v "no test files" | tail -8) > "$OUT"/baseline_with_change.txt 2>&1
if grep -q "^FAIL\|^---\|cannot\|undefined" "$OUT"/baseline_with_change.txt; then echo "BASELINE-FAILS-WITH-CHANGE"; cat "$OUT"/baseline_with_change.txt; fi
: > "$OUT"/check_results.txt
for P in "$@"; do
  echo "== $P quick" >> "$OUT"/check_results.txt
  (cd /verif && VERIF_REPO="$S" ./check "$P" --tier quick) >> "$OUT"/check_results.txt 2>&1; rc=$?
  echo "exit=$rc" >> "$OUT"/check_results.txt
  if [ $rc -eq 0 ]; then
    echo "== $P thorough" >> "$OUT"/check_results.txt
    (cd /verif && VERIF_REPO="$S" timeout 1500 ./check "$P" --tier thorough) >> "$OUT"/check_results.txt 2>&1; rc=$?
    echo "exit=$rc" >> "$OUT"/check_results.txt
  fi
  for r in $(grep -o 'replay=[^ ]*' "$OUT"/check_results.txt | cut -d= -f2 | sort -u); do [ -f "$r" ] && cp "$r" "$OUT"/ ; done
done
rm -rf "$S"
grep -E "^== |VIOLATION|exit=|KNOWN" "$OUT"/check_results.txt
